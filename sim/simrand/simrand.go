// Package rand replaces math/rand in the instrumented tree: draws come from the run's choice
// stream (so they replay and shrink), with boundary values more likely than chance when the run's
// configuration asks for it. Without an active simulation it delegates to math/rand.
package rand

import (
	mrand "math/rand"

	"github.com/form3tech-oss/f1/v2/internal/verifsim/simrt"
)

var extremes32 = []uint32{0, 1, 1 << 30, 1 << 31, 3 << 30, 1<<32 - 1, 1<<32 - 2}

func Float64() float64 {
	v, ok := simrt.Rand32(extremes32)
	if !ok {
		return mrand.Float64()
	}
	return float64(v) / (1 << 32) // in [0,1)
}

func Intn(n int) int {
	if n <= 0 {
		panic("invalid argument to Intn")
	}
	v, ok := simrt.Rand32([]uint32{0, uint32(n - 1), uint32(n / 2)})
	if !ok {
		return mrand.Intn(n)
	}
	return int(uint64(v) % uint64(n))
}

func Int63n(n int64) int64 {
	if n <= 0 {
		panic("invalid argument to Int63n")
	}
	v, ok := simrt.Rand32(nil)
	if !ok {
		return mrand.Int63n(n)
	}
	return int64(uint64(v) % uint64(n))
}

func Int31n(n int32) int32 { return int32(Intn(int(n))) }

func Int() int {
	v, ok := simrt.Rand32(nil)
	if !ok {
		return mrand.Int()
	}
	return int(v)
}

func Int63() int64 {
	v, ok := simrt.Rand32(nil)
	if !ok {
		return mrand.Int63()
	}
	return int64(v)
}

func Uint32() uint32 {
	v, ok := simrt.Rand32(nil)
	if !ok {
		return mrand.Uint32()
	}
	return v
}

func Perm(n int) []int {
	p := make([]int, n)
	for i := range p {
		p[i] = i
	}
	for i := n - 1; i > 0; i-- {
		j := Intn(i + 1)
		p[i], p[j] = p[j], p[i]
	}
	return p
}

func Shuffle(n int, swap func(i, j int)) {
	for i := n - 1; i > 0; i-- {
		swap(i, Intn(i+1))
	}
}

func Seed(int64) {}
