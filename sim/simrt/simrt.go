// Package simrt is the deterministic-simulation runtime injected into the instrumented scratch copy
// of f1 (as internal/verifsim/simrt). It is never part of /repo.
//
// One run = one testing/synctest bubble. The bubble's root goroutine is the scheduler; every other
// goroutine that executes instrumented code is a task. Instrumented code calls Yield before every
// statement that can touch shared state; Yield parks the caller until the scheduler hands it the
// token. Exactly one task runs at a time; synctest.Wait tells the scheduler when the system is
// quiescent again. Every decision is drawn from a Choices source (seeded PRNG or replay vector).
package simrt

import (
	"fmt"
	"hash/fnv"
	"os"
	"runtime"
	"sort"
	"strings"
	"sync"
	"sync/atomic"
	"testing/synctest"
	"time"
)

// Epoch is the wall-clock instant at which a synctest bubble starts.
var Epoch = time.Date(2000, 1, 1, 0, 0, 0, 0, time.UTC)

var active atomic.Pointer[Sim]

var realBase = time.Now()

var inactiveRot atomic.Uint64

// fullTrace (VERIF_FULLTRACE=1): every yield is rendered into the schedule, for debugging the simulator itself.
var fullTrace = os.Getenv("VERIF_FULLTRACE") == "1"

// Active reports whether a simulation is running in this process.
func Active() bool { return active.Load() != nil }

// Cur returns the running simulation (nil when none).
func Cur() *Sim { return active.Load() }

// Nanotime replaces xtime.NanoTime in the instrumented tree: the bubble clock when simulating,
// a real monotonic clock otherwise.
func Nanotime() int64 {
	if active.Load() != nil {
		return time.Now().UnixNano()
	}
	return int64(time.Since(realBase)) + 1
}

// ElemZero returns the zero value of a channel's element type (used by the select rewrite to
// declare receive temporaries without type information).
func ElemZero[T any](<-chan T) T {
	var z T
	return z
}

// Event is one entry of the totally ordered event log written by harness code.
type Event struct {
	Seq  uint64 // scheduler step at which it was appended
	T    int64  // simulated ns since Epoch
	Task string
	Kind string
	A, B int64
	S    string
}

func (e Event) String() string {
	return fmt.Sprintf("%d t=%d %s %s %d %d %s", e.Seq, e.T, e.Task, e.Kind, e.A, e.B, e.S)
}

type task struct {
	idx     int
	name    string
	goid    uint64
	resume  chan struct{}
	parked  bool
	site    string
	pred    func() bool
	acquire func()
	// stall fault: not offered to the chooser before this simulated instant
	stalledUntil int64
	perm         []int
	selCount     uint64
	prio         int
	explicit     bool
	steps        uint64
}

// Config holds the knobs of one simulated run that belong to the runtime (the harness has its own).
type Config struct {
	Strategy      string  `json:"strategy"`       // rr | rw | sticky | pct | delay
	SwitchProb    float64 `json:"switch_prob"`    // sticky: probability of a pre-emption at a step
	PCTDepth      int     `json:"pct_depth"`      // pct: number of priority change points
	PCTSteps      int     `json:"pct_steps"`      // pct: estimated run length for placing change points
	DelayMod      int     `json:"delay_mod"`      // delay: 1/DelayMod of sites are "slow"
	StallPermille int     `json:"stall_permille"` // stall fault probability per step (0 = off)
	StallMaxMs    int     `json:"stall_max_ms"`   // stall duration upper bound
	MaxStalls     int     `json:"max_stalls"`     // cap on stalls per run
	SelectShuffle float64 `json:"select_shuffle"` // probability that a select polls in non-source order
	RandExtreme   float64 `json:"rand_extreme"`   // probability that a simulated random draw is a boundary value
	MaxSteps      uint64  `json:"max_steps"`      // step cap (run becomes inconclusive)
	MaxSimNs      int64   `json:"max_sim_ns"`     // simulated-time cap (hang detection)
	StallSites    string  `json:"stall_sites"`    // substring filter: only tasks parked at matching sites are stalled ("" = any)
	PreferSites   string  `json:"prefer_sites"`   // substring: pre-emptions are concentrated at these sites
	NoFastPath    bool    `json:"no_fast_path"`   // every yield goes through the scheduler
}

// Stats is what the runtime measured in one run.
type Stats struct {
	Steps         uint64            `json:"steps"`
	FastYields    uint64            `json:"fast_yields"`
	SchedSteps    uint64            `json:"sched_steps"`
	Switches      uint64            `json:"switches"`
	Preempts      uint64            `json:"preempts"`
	Stalls        uint64            `json:"stalls"`
	SelectShuffle uint64            `json:"select_shuffles"`
	RandDraws     uint64            `json:"rand_draws"`
	RandExtremes  uint64            `json:"rand_extremes"`
	Tasks         int               `json:"tasks"`
	MultiNewborn  uint64            `json:"multi_newborn"`
	SimNs         int64             `json:"sim_ns"`
	TraceHash     uint64            `json:"trace_hash"`
	SitePairs     int               `json:"site_pairs"`
	Probes        map[string]uint64 `json:"probes,omitempty"`
	StepCapHit    bool              `json:"step_cap_hit"`
	TimeCapHit    bool              `json:"time_cap_hit"`
	Blocked       []string          `json:"blocked,omitempty"` // tasks parked and disabled when the time cap hit
	Leftover      []string          `json:"leftover,omitempty"`
}

// Sim is one simulated run.
type Sim struct {
	mu         sync.Mutex
	cfg        Config
	ch         *Choices
	tasks      []*task
	newborn    []*task
	byGoid     map[uint64]*task
	rootGoid   uint64
	arrive     chan struct{}
	step       uint64 // real scheduling steps
	clock      uint64 // strictly increasing sequence number: scheduling steps, fast yields and log entries
	fastRun    int
	atomicGoid uint64
	cur        *task
	mainDone   bool
	killed     bool
	events     []Event
	stats      Stats
	pairs      map[uint64]struct{}
	trace      uint64
	probes     map[string]uint64
	hooks      []stepHook
	siteHooks  []siteHook
	sitePend   int // site hooks not armed yet
	pctPts     map[uint64]bool
	delayKey   uint64
	// TraceOut, when non-nil, receives one line per scheduling step (replay rendering).
	TraceOut *[]string
	start    time.Time
	fast     bool
}

// siteHook: an environment action placed relative to a point of the system's own protocol ("right after the
// pool started", "while the stages worker moves on"): the nth time any task reaches a yield site matching pat,
// fn is scheduled plus steps later.
type siteHook struct {
	pat   string
	nth   int
	plus  uint64
	fn    func()
	seen  int
	armed bool
}

type stepHook struct {
	step uint64
	fn   func()
	done bool
}

// New creates a simulation. Must be called on the bubble's root goroutine.
func New(cfg Config, ch *Choices) *Sim {
	if cfg.MaxSteps == 0 {
		cfg.MaxSteps = 400000
	}
	if cfg.MaxSimNs == 0 {
		cfg.MaxSimNs = int64(2 * time.Hour)
	}
	s := &Sim{
		cfg:      cfg,
		ch:       ch,
		byGoid:   map[uint64]*task{},
		rootGoid: goid(),
		arrive:   make(chan struct{}, 1),
		pairs:    map[uint64]struct{}{},
		probes:   map[string]uint64{},
		trace:    14695981039346656037,
		start:    time.Now(),
	}
	s.fast = (cfg.Strategy == "sticky" || cfg.Strategy == "rr" || cfg.Strategy == "") && !cfg.NoFastPath
	if cfg.Strategy == "pct" {
		s.pctPts = map[uint64]bool{}
		n := cfg.PCTSteps
		if n <= 0 {
			n = 2000
		}
		for i := 0; i < cfg.PCTDepth; i++ {
			s.pctPts[uint64(ch.Draw('P', uint32(n), nil))] = true
		}
	}
	if cfg.Strategy == "delay" {
		s.delayKey = uint64(ch.Draw('D', 1<<30, nil))
	}
	return s
}

// Now returns simulated ns since Epoch.
func (s *Sim) Now() int64 { return int64(time.Since(s.start)) }

// Step returns the current scheduler step.
func (s *Sim) Step() uint64 { return atomic.LoadUint64(&s.clock) }

// Go creates an explicitly named task running fn. Only the root goroutine (before Run) or a running
// task may call it.
func (s *Sim) Go(name string, fn func()) {
	t := &task{name: name, resume: make(chan struct{}), explicit: true}
	s.mu.Lock()
	t.idx = len(s.tasks)
	s.tasks = append(s.tasks, t)
	s.mu.Unlock()
	go func() {
		g := goid()
		s.mu.Lock()
		t.goid = g
		s.byGoid[g] = t
		s.mu.Unlock()
		s.park(g, "start:"+name, nil, nil)
		fn()
	}()
}

// GoMain is Go for the task whose return ends the run.
func (s *Sim) GoMain(name string, fn func()) {
	s.Go(name, func() {
		defer func() {
			s.mu.Lock()
			s.mainDone = true
			s.mu.Unlock()
			select {
			case s.arrive <- struct{}{}:
			default:
			}
		}()
		fn()
	})
}

// Quiesce ends fault injection for the rest of the run: from now on every scheduling, select-order and
// stall decision takes its default (keep running / fair rotating select order / no fault). Liveness
// oracles ("nothing of the run remains") are stated for the time after faults have stopped: Go's select is
// fair only with probability 1, so an adversarial order could starve a ready case for any finite time.
func (s *Sim) Quiesce() {
	s.ch.SetQuiet()
}

// AtStep registers fn to be executed by the scheduler itself when the step counter reaches step
// (used for "cancel at scheduling step k": an asynchronous signal).
func (s *Sim) AtStep(step uint64, fn func()) {
	s.mu.Lock()
	s.hooks = append(s.hooks, stepHook{step: step, fn: fn})
	s.mu.Unlock()
}

// AtSite registers fn to be executed by the scheduler plus steps after the nth arrival of any task at a yield
// site whose name contains one of the |-separated substrings of pat.
func (s *Sim) AtSite(pat string, nth int, plus uint64, fn func()) {
	s.mu.Lock()
	s.siteHooks = append(s.siteHooks, siteHook{pat: pat, nth: nth, plus: plus, fn: fn})
	s.sitePend++
	s.mu.Unlock()
}

// siteSeen (s.mu held) arms the site hooks that are due at this arrival; it reports whether one was armed.
func (s *Sim) siteSeen(site string) bool {
	armed := false
	for i := range s.siteHooks {
		h := &s.siteHooks[i]
		if h.armed || !matchAny(site, h.pat) {
			continue
		}
		h.seen++
		if h.seen >= h.nth {
			h.armed = true
			armed = true
			s.sitePend--
			s.hooks = append(s.hooks, stepHook{step: atomic.LoadUint64(&s.clock) + h.plus, fn: h.fn})
		}
	}
	return armed
}

// Yield is the scheduling point inserted by the instrumenter.
func Yield(site string) {
	s := active.Load()
	if s == nil {
		return
	}
	g := goid()
	if g == s.rootGoid || g == atomic.LoadUint64(&s.atomicGoid) {
		return
	}
	if s.fast && s.fastYield(g, site) {
		return
	}
	s.park(g, site, nil, nil)
}

// Atomic runs fn on the calling task without scheduling points (yields return at once). For long,
// purely sequential computations inside a run (e.g. ten million evaluations of a rate function) where
// interleaving adds nothing; blocking operations inside fn still work as usual.
func Atomic(fn func()) {
	s := active.Load()
	if s == nil {
		fn()
		return
	}
	g := goid()
	prev := atomic.SwapUint64(&s.atomicGoid, g)
	defer atomic.StoreUint64(&s.atomicGoid, prev)
	fn()
}

// YieldSpawn is the scheduling point before a go statement: it never takes the fast path.
func YieldSpawn(site string) {
	s := active.Load()
	if s == nil {
		return
	}
	g := goid()
	if g == s.rootGoid || g == atomic.LoadUint64(&s.atomicGoid) {
		return
	}
	s.park(g, site, nil, nil)
}

// fastYield decides, in the running task itself, to keep running without a round trip through the
// scheduler (only for the strategies whose default is "keep the running task": sticky, rr). The decision
// is an entry of the choice vector like any other; a real scheduling point is forced at least every
// fastMax yields, and always when the caller is not the task that holds the token.
const fastMax = 48

func (s *Sim) fastYield(g uint64, site string) bool {
	s.mu.Lock()
	if s.killed || s.cur == nil || s.cur.goid != g || s.fastRun >= fastMax || s.sitePend > 0 {
		// (site hooks: every arrival goes through park, which counts it)
		s.mu.Unlock()
		return false
	}
	if s.cfg.StallSites != "" && s.cfg.StallPermille > 0 && int(s.stats.Stalls) < s.cfg.MaxStalls && matchAny(site, s.cfg.StallSites) {
		// a site where a stall fault may be placed: the scheduler has to see the task parked exactly here
		s.mu.Unlock()
		return false
	}
	p := s.cfg.SwitchProb
	if s.cfg.PreferSites != "" && matchAny(site, s.cfg.PreferSites) {
		p = 0.5
	}
	v := s.ch.Draw('Y', 2, func(r *Rng) uint32 {
		if s.cfg.Strategy == "rr" || r.Float64() >= p {
			return 0
		}
		return 1
	})
	if v != 0 {
		s.mu.Unlock()
		return false
	}
	s.fastRun++
	s.stats.FastYields++
	if fullTrace && s.TraceOut != nil {
		*s.TraceOut = append(*s.TraceOut, "  y "+site)
	}
	atomic.AddUint64(&s.clock, 1)
	s.trace = mix(s.trace, strHash(site))
	s.cur.site = site
	s.mu.Unlock()
	return true
}

// Park blocks the calling task until pred() holds and the scheduler picks it; acquire() is then run
// by the scheduler (atomically with the decision) before the task resumes. Used by simsync.
// It returns false if no simulation is active or the caller is the root goroutine.
func Park(site string, pred func() bool, acquire func()) bool {
	s := active.Load()
	if s == nil {
		return false
	}
	g := goid()
	if g == s.rootGoid {
		return false
	}
	s.park(g, site, pred, acquire)
	return true
}

func (s *Sim) park(g uint64, site string, pred func() bool, acquire func()) {
	s.mu.Lock()
	if s.killed {
		s.mu.Unlock()
		runtime.Goexit()
	}
	t := s.byGoid[g]
	if t == nil {
		t = &task{goid: g, resume: make(chan struct{}), idx: -1, name: site}
		s.byGoid[g] = t
		s.newborn = append(s.newborn, t)
	}
	t.parked = true
	t.site = site
	t.pred = pred
	t.acquire = acquire
	if s.sitePend > 0 {
		s.siteSeen(site)
	}
	s.mu.Unlock()
	select {
	case s.arrive <- struct{}{}:
	default:
	}
	<-t.resume
	if s.killed {
		runtime.Goexit()
	}
}

// TaskName returns the canonical name of the calling task ("root" for the scheduler).
func (s *Sim) TaskName() string {
	g := goid()
	if g == s.rootGoid {
		return "root"
	}
	s.mu.Lock()
	defer s.mu.Unlock()
	if t := s.byGoid[g]; t != nil {
		return t.name
	}
	return "?"
}

// Log appends an event to the run's totally ordered log. Only the token holder may call it.
func (s *Sim) Log(kind string, a, b int64, str string) {
	g := goid()
	s.mu.Lock()
	name := "root"
	if t := s.byGoid[g]; t != nil {
		name = t.name
	}
	if !s.killed {
		seq := atomic.AddUint64(&s.clock, 1)
		s.events = append(s.events, Event{Seq: seq, T: s.Now(), Task: name, Kind: kind, A: a, B: b, S: str})
	}
	s.mu.Unlock()
}

// Probe counts that a rare condition of interest was reached.
func (s *Sim) Probe(name string) {
	s.mu.Lock()
	s.probes[name]++
	s.mu.Unlock()
}

// Probe is the package-level form (no-op without a simulation).
func Probe(name string) {
	if s := active.Load(); s != nil {
		s.Probe(name)
	}
}

// Events returns the log (call after Run).
func (s *Sim) Events() []Event { return s.events }

func (s *Sim) adoptNewborns() {
	if len(s.newborn) == 0 {
		return
	}
	if len(s.newborn) > 1 {
		s.stats.MultiNewborn++
		sort.SliceStable(s.newborn, func(i, j int) bool {
			if s.newborn[i].site != s.newborn[j].site {
				return s.newborn[i].site < s.newborn[j].site
			}
			return s.newborn[i].goid < s.newborn[j].goid
		})
	}
	for _, t := range s.newborn {
		t.idx = len(s.tasks)
		t.name = fmt.Sprintf("%s/%d", t.site, t.idx)
		s.tasks = append(s.tasks, t)
	}
	s.newborn = s.newborn[:0]
}

func mix(h uint64, v uint64) uint64 {
	h ^= v
	h *= 1099511628211
	return h
}

func strHash(x string) uint64 {
	h := fnv.New64a()
	h.Write([]byte(x))
	return h.Sum64()
}

// Run is the scheduler loop; it returns when the main task has returned (or a cap was hit).
func (s *Sim) Run() {
	active.Store(s)
	deadline := s.cfg.MaxSimNs
	for {
		synctest.Wait()
		s.mu.Lock()
		s.adoptNewborns()
		if s.mainDone {
			s.mu.Unlock()
			break
		}
		now := s.Now()
		if atomic.LoadUint64(&s.clock) >= s.cfg.MaxSteps {
			s.stats.StepCapHit = true
			s.mu.Unlock()
			break
		}
		if now >= deadline {
			s.stats.TimeCapHit = true
			for _, t := range s.tasks {
				if t.parked {
					en := t.pred == nil || t.pred()
					s.stats.Blocked = append(s.stats.Blocked, fmt.Sprintf("%s@%s enabled=%v", t.name, t.site, en))
				}
			}
			s.mu.Unlock()
			break
		}
		// asynchronous environment actions due at this step
		var due []func()
		for i := range s.hooks {
			if !s.hooks[i].done && s.hooks[i].step <= atomic.LoadUint64(&s.clock) {
				s.hooks[i].done = true
				due = append(due, s.hooks[i].fn)
			}
		}
		if len(due) > 0 {
			s.mu.Unlock()
			for _, f := range due {
				f()
			}
			continue
		}
		var cands []*task
		nextStall := int64(-1)
		for _, t := range s.tasks {
			if !t.parked {
				continue
			}
			if t.pred != nil && !t.pred() {
				continue
			}
			if t.stalledUntil > now {
				if nextStall < 0 || t.stalledUntil < nextStall {
					nextStall = t.stalledUntil
				}
				continue
			}
			cands = append(cands, t)
		}
		if len(cands) == 0 {
			s.mu.Unlock()
			d := deadline - now
			if nextStall >= 0 && nextStall-now < d {
				d = nextStall - now
			}
			if d <= 0 {
				d = 1
			}
			tm := time.NewTimer(time.Duration(d))
			select {
			case <-s.arrive:
			case <-tm.C:
			}
			tm.Stop()
			continue
		}
		t := s.choose(cands, now)
		if t == nil { // a stall was injected on the only candidate; re-evaluate
			s.mu.Unlock()
			continue
		}
		if t.acquire != nil {
			t.acquire()
		}
		t.parked = false
		t.pred, t.acquire = nil, nil
		s.step++
		atomic.AddUint64(&s.clock, 1)
		s.fastRun = 0
		t.steps++
		s.trace = mix(mix(s.trace, uint64(t.idx)), strHash(t.site))
		if s.cur != t {
			s.stats.Switches++
			if s.cur != nil {
				s.pairs[mix(strHash(s.cur.site), strHash(t.site))] = struct{}{}
			}
		}
		if fullTrace && s.TraceOut != nil {
			*s.TraceOut = append(*s.TraceOut, "  s "+t.name+" "+t.site)
		}
		if s.TraceOut != nil {
			// rendered schedule: one line per context switch (runs of the same task are summarised)
			if s.cur != t {
				from := "-"
				if s.cur != nil {
					from = s.cur.name + "@" + s.cur.site
				}
				*s.TraceOut = append(*s.TraceOut, fmt.Sprintf("step=%d t=%s switch %s -> %s@%s", s.step, time.Duration(now), from, t.name, t.site))
			}
		}
		s.cur = t
		s.mu.Unlock()
		t.resume <- struct{}{}
	}
	s.stats.Steps = atomic.LoadUint64(&s.clock)
	s.stats.SchedSteps = s.step
	s.stats.SimNs = s.Now()
	s.stats.Tasks = len(s.tasks)
	s.stats.SitePairs = len(s.pairs)
	s.stats.TraceHash = s.trace
	s.stats.Probes = s.probes
}

// order candidates: the running task first (if enabled), the others round-robin after it.
func (s *Sim) orderCands(cands []*task) []*task {
	curIdx := -1
	if s.cur != nil {
		curIdx = s.cur.idx
	}
	n := len(s.tasks) + 1
	sort.Slice(cands, func(i, j int) bool {
		a := (cands[i].idx - curIdx + n) % n
		b := (cands[j].idx - curIdx + n) % n
		return a < b
	})
	return cands
}

func (s *Sim) choose(cands []*task, now int64) *task {
	cands = s.orderCands(cands)
	// stall fault
	if s.cfg.StallPermille > 0 && int(s.stats.Stalls) < s.cfg.MaxStalls {
		v := s.ch.Draw('F', 1000, nil)
		if int(v) >= 1000-s.cfg.StallPermille {
			var pool []*task
			for _, c := range cands {
				if s.cfg.StallSites == "" || matchAny(c.site, s.cfg.StallSites) {
					pool = append(pool, c)
				}
			}
			if len(pool) > 0 {
				vi := s.ch.Draw('V', uint32(len(pool)), nil)
				maxMs := s.cfg.StallMaxMs
				if maxMs <= 0 {
					maxMs = 100
				}
				// duration in 100µs units, plus an odd offset so that it does not tie with round timers
				du := s.ch.Draw('U', uint32(maxMs*10), nil)
				victim := pool[vi]
				victim.stalledUntil = now + int64(du+1)*int64(100*time.Microsecond) + 137
				s.stats.Stalls++
				if s.TraceOut != nil {
					*s.TraceOut = append(*s.TraceOut, fmt.Sprintf("fault=stall task=%s site=%s for=%s", victim.name, victim.site, time.Duration(victim.stalledUntil-now)))
				}
				var rest []*task
				for _, c := range cands {
					if c != victim {
						rest = append(rest, c)
					}
				}
				cands = rest
				if len(cands) == 0 {
					return nil
				}
			}
		}
	}
	n := len(cands)
	curEnabled := s.cur != nil && cands[0] == s.cur
	if n == 1 {
		return cands[0]
	}
	idx := int(s.ch.Draw('T', uint32(n), func(r *Rng) uint32 {
		switch s.cfg.Strategy {
		case "rw":
			return uint32(r.Intn(n))
		case "pct":
			for _, c := range cands {
				if c.prio == 0 {
					c.prio = 1 + r.Intn(1<<20)
				}
			}
			if s.pctPts[s.step] && curEnabled {
				s.cur.prio = -int(s.step) - 1
			}
			best := 0
			for i, c := range cands {
				if c.prio > cands[best].prio {
					best = i
				}
			}
			return uint32(best)
		case "delay":
			// tasks parked at "slow" sites lose against the others most of the time
			var fast []int
			for i, c := range cands {
				if (strHash(c.site)^s.delayKey)%uint64(max(s.cfg.DelayMod, 2)) != 0 {
					fast = append(fast, i)
				}
			}
			if len(fast) > 0 && len(fast) < n && r.Float64() < 0.9 {
				return uint32(fast[r.Intn(len(fast))])
			}
			if curEnabled && r.Float64() >= s.cfg.SwitchProb {
				return 0
			}
			return uint32(r.Intn(n))
		case "rr":
			return 0
		default: // sticky
			p := s.cfg.SwitchProb
			if s.cfg.PreferSites != "" && s.cur != nil && matchAny(s.cur.site, s.cfg.PreferSites) {
				p = 0.5
			}
			if curEnabled {
				if r.Float64() >= p {
					return 0
				}
				return uint32(1 + r.Intn(n-1))
			}
			return uint32(r.Intn(n))
		}
	}))
	if curEnabled && idx != 0 {
		s.stats.Preempts++
	}
	return cands[idx]
}

func matchAny(site, filters string) bool {
	for _, f := range strings.Split(filters, "|") {
		if f != "" && strings.Contains(site, f) {
			return true
		}
	}
	return false
}

// SelectNext is called by rewritten select statements: attempt k of polling n communication cases.
// It returns the case index to try, or -1 when all have been tried (block / take default).
func SelectNext(site string, n int, k int) int {
	if k >= n {
		return -1
	}
	s := active.Load()
	if s == nil {
		// no simulation: poll fairly (Go's select is fair; a fixed source order could starve a case for ever)
		if k == 0 {
			inactiveRot.Add(1)
		}
		return (k + int(inactiveRot.Load()%uint64(n))) % n
	}
	g := goid()
	if g == s.rootGoid {
		return k
	}
	s.mu.Lock()
	t := s.byGoid[g]
	s.mu.Unlock()
	if t == nil {
		return k
	}
	if k == 0 {
		t.selCount++
		f := 1
		for i := 2; i <= n && i <= 6; i++ {
			f *= i
		}
		v := int(s.ch.Draw('S', uint32(f), func(r *Rng) uint32 {
			if r.Float64() < s.cfg.SelectShuffle {
				return uint32(r.Intn(f))
			}
			return 0
		}))
		if v != 0 {
			s.mu.Lock()
			s.stats.SelectShuffle++
			s.mu.Unlock()
		}
		// decode v as a permutation (factorial number system)
		perm := make([]int, n)
		avail := make([]int, n)
		for i := range avail {
			avail[i] = i
		}
		for i := 0; i < n; i++ {
			m := n - i
			if m > 6 {
				perm[i] = avail[0]
				avail = avail[1:]
				continue
			}
			fm := 1
			for j := 2; j < m; j++ {
				fm *= j
			}
			d := v / fm
			v = v % fm
			if d >= len(avail) {
				d = len(avail) - 1
			}
			perm[i] = avail[d]
			avail = append(avail[:d:d], avail[d+1:]...)
		}
		// the default order (v == 0) rotates with every execution, so that no ready case is starved:
		// Go promises a uniformly random choice, of which a fixed order would be an unfair refinement
		rot := int(t.selCount % uint64(n))
		for i := range perm {
			perm[i] = (perm[i] + rot) % n
		}
		t.perm = perm
	}
	if k < len(t.perm) {
		return t.perm[k]
	}
	return k
}

// Rand32 returns one simulated random 32-bit draw (used by simrand).
func Rand32(extremes []uint32) (uint32, bool) {
	s := active.Load()
	if s == nil {
		return 0, false
	}
	ext := false
	v := s.ch.Draw('R', 0, func(r *Rng) uint32 {
		if len(extremes) > 0 && r.Float64() < s.cfg.RandExtreme {
			ext = true
			return extremes[r.Intn(len(extremes))]
		}
		return r.Uint32()
	})
	s.mu.Lock()
	s.stats.RandDraws++
	if ext {
		s.stats.RandExtremes++
	}
	s.mu.Unlock()
	return v, true
}

// Finish ends the simulation: every parked task is told to exit (runtime.Goexit from its yield),
// goroutines of this run that remain afterwards are listed in Stats.Leftover.
func (s *Sim) Finish(preexisting map[uint64]bool) Stats {
	s.mu.Lock()
	s.killed = true
	var toWake []*task
	for _, t := range s.tasks {
		if t.parked {
			t.parked = false
			toWake = append(toWake, t)
		}
	}
	for _, t := range s.newborn {
		if t.parked {
			t.parked = false
			toWake = append(toWake, t)
		}
	}
	s.mu.Unlock()
	for _, t := range toWake {
		t.resume <- struct{}{}
	}
	synctest.Wait()
	active.Store(nil)
	return s.stats
}

// Stats returns the statistics gathered so far (valid after Run).
func (s *Sim) Stats() Stats { return s.stats }

// Goroutines returns, for every goroutine whose id is not in exclude, its id and stack text.
func Goroutines(exclude map[uint64]bool) map[uint64]string {
	buf := make([]byte, 1<<20)
	for {
		n := runtime.Stack(buf, true)
		if n < len(buf) {
			buf = buf[:n]
			break
		}
		buf = make([]byte, 2*len(buf))
	}
	out := map[uint64]string{}
	for _, blk := range strings.Split(string(buf), "\n\n") {
		if !strings.HasPrefix(blk, "goroutine ") {
			continue
		}
		var id uint64
		for i := 10; i < len(blk); i++ {
			c := blk[i]
			if c < '0' || c > '9' {
				break
			}
			id = id*10 + uint64(c-'0')
		}
		if exclude != nil && exclude[id] {
			continue
		}
		out[id] = blk
	}
	return out
}

// GoroutineIDs returns the set of all goroutine ids alive now.
func GoroutineIDs() map[uint64]bool {
	m := map[uint64]bool{}
	for id := range Goroutines(nil) {
		m[id] = true
	}
	return m
}

// Sleep is time.Sleep followed by a scheduling point (for uninstrumented harness code).
func Sleep(d time.Duration) {
	time.Sleep(d)
	Yield("simrt.Sleep")
}
