package simrt

import "sync"

// Rng is a small self-contained PRNG (splitmix64) so that a seed means the same thing under every
// Go release.
type Rng struct{ s uint64 }

func NewRng(seed uint64) *Rng { return &Rng{s: seed} }

func (r *Rng) Uint64() uint64 {
	r.s += 0x9e3779b97f4a7c15
	z := r.s
	z = (z ^ (z >> 30)) * 0xbf58476d1ce4e5b9
	z = (z ^ (z >> 27)) * 0x94d049bb133111eb
	return z ^ (z >> 31)
}

func (r *Rng) Uint32() uint32 { return uint32(r.Uint64() >> 32) }

// Intn returns a value in [0,n); n must be > 0.
func (r *Rng) Intn(n int) int {
	if n <= 1 {
		return 0
	}
	return int(r.Uint64() % uint64(n))
}

func (r *Rng) Int63n(n int64) int64 {
	if n <= 1 {
		return 0
	}
	return int64(r.Uint64() % uint64(n))
}

func (r *Rng) Float64() float64 { return float64(r.Uint64()>>11) / (1 << 53) }

// Pick returns one of the arguments.
func Pick[T any](r *Rng, xs ...T) T { return xs[r.Intn(len(xs))] }

// Choices is the single source of every scheduling/fault/randomness decision of a run: a seeded
// PRNG in search mode (decisions are recorded), a recorded vector in replay mode.
type Choices struct {
	mu     sync.Mutex
	rng    *Rng
	replay []uint32
	isRepl bool
	pos    int
	Rec    []uint32
	Kinds  []byte
	// Diverged counts replay entries whose recorded kind differs from the kind requested now.
	Diverged  int
	Exhausted int
	replKinds []byte
	quiet     bool
}

// SetQuiet makes every later non-randomness decision the default.
func (c *Choices) SetQuiet() {
	c.mu.Lock()
	c.quiet = true
	c.mu.Unlock()
}

// NewSearch returns a recording PRNG-driven source.
func NewSearch(seed uint64) *Choices { return &Choices{rng: NewRng(seed)} }

// NewReplay returns a source that replays vec (entries beyond its end are 0 = the default).
func NewReplay(vec []uint32, kinds []byte) *Choices {
	return &Choices{replay: vec, isRepl: true, replKinds: kinds}
}

// Draw returns a value in [0,n) (any uint32 when n == 0). In search mode gen supplies the
// distribution (uniform when nil); 0 is always the default / no-fault / keep-running alternative.
func (c *Choices) Draw(kind byte, n uint32, gen func(*Rng) uint32) uint32 {
	c.mu.Lock()
	defer c.mu.Unlock()
	var v uint32
	if c.quiet && kind != 'R' {
		// defaults only (recorded like any decision, so replay and minimisation see the same vector)
		if c.isRepl && c.pos >= len(c.replay) {
			c.Exhausted++
		}
	} else if c.isRepl {
		if c.pos < len(c.replay) {
			v = c.replay[c.pos]
			if c.pos < len(c.replKinds) && c.replKinds[c.pos] != kind {
				c.Diverged++
			}
		} else {
			c.Exhausted++
		}
	} else if gen != nil {
		v = gen(c.rng)
	} else if n > 0 {
		v = uint32(c.rng.Intn(int(n)))
	} else {
		v = c.rng.Uint32()
	}
	if n > 0 {
		v %= n
	}
	c.pos++
	c.Rec = append(c.Rec, v)
	c.Kinds = append(c.Kinds, kind)
	return v
}
