package simrt

import (
	"runtime"
	"unsafe"
)

// Goroutine identity. runtime.Stack costs a full traceback (tens of microseconds on deep stacks), so
// the id is read directly from the runtime's g structure. The field offset is not hard-coded: it is
// found at start-up by looking for the known id (obtained the slow way) in two different goroutines.

func getg() uintptr

var goidOff uintptr

func slowGoid() uint64 {
	var buf [48]byte
	n := runtime.Stack(buf[:], false)
	var id uint64
	for i := 10; i < n; i++ {
		c := buf[i]
		if c < '0' || c > '9' {
			break
		}
		id = id*10 + uint64(c-'0')
	}
	return id
}

func candidates(g uintptr, id uint64, in []uintptr) []uintptr {
	var out []uintptr
	if in == nil {
		for off := uintptr(0); off < 640; off += 8 {
			in = append(in, off)
		}
	}
	for _, off := range in {
		if *(*uint64)(unsafe.Pointer(g + off)) == id {
			out = append(out, off)
		}
	}
	return out
}

func init() {
	c := candidates(getg(), slowGoid(), nil)
	for round := 0; round < 3 && len(c) > 1; round++ {
		done := make(chan []uintptr)
		go func() { done <- candidates(getg(), slowGoid(), c) }()
		c = <-done
	}
	if len(c) == 1 {
		goidOff = c[0]
	}
}

func goid() uint64 {
	if goidOff != 0 {
		return *(*uint64)(unsafe.Pointer(getg() + goidOff))
	}
	return slowGoid()
}

// FastGoid reports whether the fast goroutine-id path is in use (evidence).
func FastGoid() bool { return goidOff != 0 }
