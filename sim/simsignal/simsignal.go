// Package simsignal replaces os/signal in the instrumented copy of f1: inside a simulation, signals are delivered by
// the simulator (Deliver) to the channels f1 registered with Notify; outside a simulation it is os/signal itself.
package simsignal

import (
	"os"
	ossignal "os/signal"
	"sync"

	"github.com/form3tech-oss/f1/v2/internal/verifsim/simrt"
)

type sub struct {
	c    chan<- os.Signal
	sigs []os.Signal
	gen  int
}

var (
	mu   sync.Mutex
	subs []sub
	gen  int
)

// Notify registers c for the given signals (all signals when none is given).
func Notify(c chan<- os.Signal, sig ...os.Signal) {
	if !simrt.Active() {
		ossignal.Notify(c, sig...)
		return
	}
	mu.Lock()
	gen++
	subs = append(subs, sub{c: c, sigs: sig, gen: gen})
	mu.Unlock()
}

// Stop removes every registration of c.
func Stop(c chan<- os.Signal) {
	if !simrt.Active() {
		ossignal.Stop(c)
		return
	}
	mu.Lock()
	kept := subs[:0]
	for _, s := range subs {
		if s.c != c {
			kept = append(kept, s)
		}
	}
	subs = kept
	mu.Unlock()
}

// Reset undoes Notify for the given signals (all registrations when none is given).
func Reset(sig ...os.Signal) {
	if !simrt.Active() {
		ossignal.Reset(sig...)
		return
	}
	mu.Lock()
	subs = nil
	mu.Unlock()
}

// Gen is the number of registrations made so far (Deliver can be told to count only later ones).
func Gen() int {
	mu.Lock()
	defer mu.Unlock()
	return gen
}

// Deliver sends sig, as the runtime does, without blocking to every channel registered for it. It returns how many
// channels registered after generation since accepted it.
func Deliver(sig os.Signal, since int) int {
	mu.Lock()
	defer mu.Unlock()
	n := 0
	for _, s := range subs {
		want := len(s.sigs) == 0
		for _, x := range s.sigs {
			if x == sig {
				want = true
			}
		}
		if !want {
			continue
		}
		select {
		case s.c <- sig:
			if s.gen > since {
				n++
			}
		default:
		}
	}
	return n
}

// ClearAll forgets every registration (a new simulated process starts).
func ClearAll() {
	mu.Lock()
	subs, gen = nil, 0
	mu.Unlock()
}
