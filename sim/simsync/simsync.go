// Package simsync provides scheduler-aware replacements for sync.Mutex and sync.RWMutex. The
// instrumenter redirects the type expressions sync.Mutex / sync.RWMutex in f1 code to these types.
// Without an active simulation they delegate to the real primitives.
//
// Under simulation only one task runs at a time, so a lock is plain state plus an enabling
// predicate evaluated by the scheduler. RWMutex follows the Go implementation literally: writers
// serialise on an inner mutex; a writer that holds the inner mutex has "announced" itself, from
// which moment new RLock calls block (even while old readers are still inside) until that writer
// unlocks; Unlock admits every reader blocked so far before the next writer can announce.
package simsync

import (
	"sync"

	"github.com/form3tech-oss/f1/v2/internal/verifsim/simrt"
)

type Mutex struct {
	real   sync.Mutex
	held   bool
	simGen *simrt.Sim
}

func (m *Mutex) Lock() {
	s := simrt.Cur()
	if s == nil {
		m.real.Lock()
		return
	}
	if !simrt.Park("simsync.Mutex.Lock", func() bool { return !m.held }, func() { m.held = true }) {
		// root goroutine: must not block
		if m.held {
			panic("simsync: root goroutine would block on Mutex")
		}
		m.held = true
	}
}

func (m *Mutex) TryLock() bool {
	if simrt.Cur() == nil {
		return m.real.TryLock()
	}
	if m.held {
		return false
	}
	m.held = true
	return true
}

func (m *Mutex) Unlock() {
	if simrt.Cur() == nil {
		m.real.Unlock()
		return
	}
	if !m.held {
		panic("simsync: unlock of unlocked Mutex")
	}
	m.held = false
}

type RWMutex struct {
	real sync.RWMutex

	wHeld      bool // inner writer mutex
	pending    bool // a writer has announced (holds wHeld and excludes new readers)
	readers    int  // readers inside
	readerWait int  // readers the announced writer still waits for
	blocked    int  // readers blocked behind the announced writer
	admitGen   uint64
}

func (m *RWMutex) Lock() {
	if simrt.Cur() == nil {
		m.real.Lock()
		return
	}
	announce := func() {
		m.wHeld = true
		m.pending = true
		m.readerWait = m.readers
	}
	if !simrt.Park("simsync.RWMutex.Lock", func() bool { return !m.wHeld }, announce) {
		if m.wHeld || m.readers > 0 {
			panic("simsync: root goroutine would block on RWMutex.Lock")
		}
		announce()
		return
	}
	if m.readerWait > 0 {
		simrt.Probe("rwmutex.writer_waits_for_readers")
		simrt.Park("simsync.RWMutex.Lock.drain", func() bool { return m.readerWait == 0 }, nil)
	}
}

func (m *RWMutex) Unlock() {
	if simrt.Cur() == nil {
		m.real.Unlock()
		return
	}
	if !m.wHeld || !m.pending {
		panic("simsync: Unlock of unlocked RWMutex")
	}
	m.pending = false
	// every reader blocked so far is admitted now (it already counts as a reader)
	m.readers += m.blocked
	m.blocked = 0
	m.admitGen++
	m.wHeld = false
}

func (m *RWMutex) RLock() {
	if simrt.Cur() == nil {
		m.real.RLock()
		return
	}
	// scheduling point: the decision whether a writer is pending is taken when the task is resumed
	myGen := uint64(0)
	first := true
	enter := func() {
		if m.pending {
			m.blocked++
			myGen = m.admitGen
			first = false
			return
		}
		m.readers++
	}
	if !simrt.Park("simsync.RWMutex.RLock", nil, enter) {
		if m.pending {
			panic("simsync: root goroutine would block on RWMutex.RLock")
		}
		m.readers++
		return
	}
	if !first {
		if m.readers > 0 {
			simrt.Probe("rwmutex.reader_blocked_behind_writer_while_readers_inside")
		} else {
			simrt.Probe("rwmutex.reader_blocked_behind_writer")
		}
		simrt.Park("simsync.RWMutex.RLock.blocked", func() bool { return m.admitGen != myGen }, nil)
	}
}

func (m *RWMutex) RUnlock() {
	if simrt.Cur() == nil {
		m.real.RUnlock()
		return
	}
	if m.readers <= 0 {
		panic("simsync: RUnlock of unlocked RWMutex")
	}
	m.readers--
	if m.pending && m.readerWait > 0 {
		m.readerWait--
	}
}

func (m *RWMutex) TryLock() bool {
	if simrt.Cur() == nil {
		return m.real.TryLock()
	}
	if m.wHeld || m.readers > 0 {
		return false
	}
	m.wHeld, m.pending, m.readerWait = true, true, 0
	return true
}

func (m *RWMutex) TryRLock() bool {
	if simrt.Cur() == nil {
		return m.real.TryRLock()
	}
	if m.pending {
		return false
	}
	m.readers++
	return true
}

func (m *RWMutex) RLocker() sync.Locker { return (*rlocker)(m) }

type rlocker RWMutex

func (r *rlocker) Lock()   { (*RWMutex)(r).RLock() }
func (r *rlocker) Unlock() { (*RWMutex)(r).RUnlock() }
