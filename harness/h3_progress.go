//go:build !noh3

package verifharness

import (
	"sync"
	"time"

	"github.com/form3tech-oss/f1/v2/internal/metrics"
	"github.com/form3tech-oss/f1/v2/internal/progress"
)

// H3: progress.Stats under concurrent Record / Snapshot / Total (DESIGN §3, C01 component level and
// C17 aggregation). This file is instrumented: every call below is preceded by a scheduling point.

func h3ResultType(r int) metrics.ResultType {
	switch r {
	case 0:
		return metrics.SuccessResult
	case 1:
		return metrics.FailedResult
	default:
		return metrics.DroppedResult
	}
}

func h3Recorder(st *progress.Stats, script []H3Rec, sh *h3Shared, wg *sync.WaitGroup) {
	defer wg.Done()
	for _, r := range script {
		if r.GapNs > 0 {
			time.Sleep(time.Duration(r.GapNs))
		}
		sh.begun[r.Result]++
		st.Record(h3ResultType(r.Result), r.Ns)
		sh.done[r.Result]++
	}
}

func h3Snapshotter(st *progress.Stats, gaps []int64, sh *h3Shared, wg *sync.WaitGroup) {
	defer wg.Done()
	for _, g := range gaps {
		if g > 0 {
			time.Sleep(time.Duration(g))
		}
		obs := h3Obs{doneAtStart: sh.done}
		snap := st.Snapshot(time.Second)
		obs.snap = snap
		obs.begunAtEnd = sh.begun
		sh.obs = append(sh.obs, obs)
	}
}

func h3Main(env *Env, cfg *H3Cfg, sh *h3Shared) {
	st := &progress.Stats{}
	var wg sync.WaitGroup
	wg.Add(len(cfg.Recorders) + 1)
	for i := range cfg.Recorders {
		script := cfg.Recorders[i]
		env.Sim.Go(h3name("rec", i), func() { h3Recorder(st, script, sh, &wg) })
	}
	env.Sim.Go("snap", func() { h3Snapshotter(st, cfg.SnapGaps, sh, &wg) })
	wg.Wait()
	sh.final = st.Total()
	sh.finished = true
}

// h3Sequential runs one script of whole operations on a single task and checks every result against
// the reference model (C17 aggregation, "sequential use").
func h3Sequential(env *Env, cfg *H3Cfg, sh *h3Shared) {
	st := &progress.Stats{}
	for i, op := range cfg.SeqOps {
		switch op.Kind {
		case 0:
			st.Record(h3ResultType(op.Result), op.Ns)
			sh.model.record(op.Result, op.Ns)
		case 1:
			snap := st.Snapshot(time.Duration(op.Ns))
			sh.model.check(env, i, "Snapshot", snap, true)
		case 2:
			snap := st.Total()
			sh.model.check(env, i, "Total", snap, false)
		}
	}
	sh.finished = true
}
