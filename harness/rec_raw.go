package verifharness

import (
	"context"
	"errors"
	"fmt"
	"log/slog"
	"strings"
	"sync"
	"time"

	"github.com/form3tech-oss/f1/v2/internal/verifsim/simrt"
)

// LogRec is one structured log record captured from f1's output.
type LogRec struct {
	Seq   uint64
	T     int64
	Level slog.Level
	Msg   string
	Attrs map[string]string
}

// Recorder captures everything f1 writes: structured records (slog handler) and printed lines
// (ui.Printer writers). It may also make output slow (a blocked terminal / pipe).
type Recorder struct {
	mu       sync.Mutex
	sim      *simrt.Sim
	Logs     []LogRec
	Out      []PrintRec // printer stdout
	Err      []PrintRec // printer stderr
	SlowNs   int64
	SlowAll  bool
	FailAtNs int64  // > 0: from this simulated instant on, writes to the terminal's stdout fail (EIO: the terminal went away)
	markSeq  uint64 // scheduler step of Do's return: progress after it is late
}

type PrintRec struct {
	Seq  uint64
	T    int64
	Text string
	Was  string // what the caller's buffer held when Write was entered, when that differs from what was written
}

func NewRecorder(sim *simrt.Sim) *Recorder { return &Recorder{sim: sim} }

func (r *Recorder) slow(isProgress bool) {
	if r.SlowNs > 0 && (isProgress || r.SlowAll) && simrt.Active() {
		simrt.Sleep(time.Duration(r.SlowNs))
	}
}

type recHandler struct {
	r      *Recorder
	attrs  []slog.Attr
	groups []string
}

func (r *Recorder) Handler() slog.Handler { return &recHandler{r: r} }

func (h *recHandler) Enabled(context.Context, slog.Level) bool { return true }

func flatten(prefix string, a slog.Attr, out map[string]string) {
	a.Value = a.Value.Resolve()
	if a.Value.Kind() == slog.KindGroup {
		p := prefix
		if a.Key != "" {
			p = prefix + a.Key + "."
		}
		for _, g := range a.Value.Group() {
			flatten(p, g, out)
		}
		return
	}
	out[prefix+a.Key] = a.Value.String()
}

func (h *recHandler) Handle(_ context.Context, rec slog.Record) error {
	attrs := map[string]string{}
	prefix := ""
	if len(h.groups) > 0 {
		prefix = strings.Join(h.groups, ".") + "."
	}
	for _, a := range h.attrs {
		flatten("", a, attrs)
	}
	rec.Attrs(func(a slog.Attr) bool {
		flatten(prefix, a, attrs)
		return true
	})
	h.r.slow(rec.Message == "progress")
	h.r.mu.Lock()
	h.r.Logs = append(h.r.Logs, LogRec{Seq: h.r.sim.Step(), T: h.r.sim.Now(), Level: rec.Level, Msg: rec.Message, Attrs: attrs})
	h.r.mu.Unlock()
	return nil
}

func (h *recHandler) WithAttrs(as []slog.Attr) slog.Handler {
	n := *h
	n.attrs = append(append([]slog.Attr(nil), h.attrs...), as...)
	return &n
}

func (h *recHandler) WithGroup(name string) slog.Handler {
	n := *h
	n.groups = append(append([]string(nil), h.groups...), name)
	return &n
}

type recWriter struct {
	r   *Recorder
	err bool
}

var errTerminalGone = errors.New("write /dev/stdout: input/output error")

func (w recWriter) Write(p []byte) (int, error) {
	head := string(p)
	w.r.slow(strings.Contains(head, "✔") && strings.Contains(head, "✘") && strings.HasPrefix(strings.TrimSpace(head), "["))
	s := string(p) // a slow terminal reads the caller's buffer when it gets to it, not when Write was entered
	w.r.mu.Lock()
	pr := PrintRec{Seq: w.r.sim.Step(), T: w.r.sim.Now(), Text: s}
	if s != head {
		pr.Was = head
	}
	if !w.err && w.r.FailAtNs > 0 && w.r.sim.Now() >= w.r.FailAtNs {
		w.r.mu.Unlock()
		return 0, errTerminalGone
	}
	if w.err {
		w.r.Err = append(w.r.Err, pr)
	} else {
		w.r.Out = append(w.r.Out, pr)
	}
	w.r.mu.Unlock()
	return len(p), nil
}

// saysInterrupted: f1 announced that the run was interrupted.
func (r *Recorder) saysInterrupted() bool {
	r.mu.Lock()
	defer r.mu.Unlock()
	for _, l := range r.Logs {
		if strings.HasPrefix(l.Msg, "Interrupted") {
			return true
		}
	}
	for _, l := range r.Out {
		if strings.Contains(l.Text, "Interrupted - ") {
			return true
		}
	}
	return false
}

func (r *Recorder) timeoutReported() bool {
	r.mu.Lock()
	defer r.mu.Unlock()
	for _, l := range r.Logs {
		if strings.HasPrefix(l.Msg, "Active tests not completed") {
			return true
		}
	}
	for _, l := range r.Err {
		if strings.Contains(l.Text, "Active tests not completed") {
			return true
		}
	}
	return false
}

func (l LogRec) String() string {
	return fmt.Sprintf("%d t=%s %s %q %v", l.Seq, time.Duration(l.T), l.Level, l.Msg, l.Attrs)
}

// timeoutReportedAt returns the simulated instant at which the completion-timeout warning was emitted (-1: never).
func (r *Recorder) timeoutReportedAt() int64 {
	r.mu.Lock()
	defer r.mu.Unlock()
	for _, l := range r.Logs {
		if strings.HasPrefix(l.Msg, "Active tests not completed") {
			return l.T
		}
	}
	for _, l := range r.Err {
		if strings.Contains(l.Text, "Active tests not completed") {
			return l.T
		}
	}
	return -1
}

// curHandler forwards to the recorder of the run that is executing (a logger handed to a long-lived F1 instance).
type curHandler struct {
	st  *h1State
	ops []func(slog.Handler) slog.Handler
}

func (h curHandler) Enabled(context.Context, slog.Level) bool { return true }

func (h curHandler) Handle(ctx context.Context, r slog.Record) error {
	t := h.st.curRec.Handler()
	for _, op := range h.ops {
		t = op(t)
	}
	return t.Handle(ctx, r)
}

func (h curHandler) WithAttrs(as []slog.Attr) slog.Handler {
	ops := append(append([]func(slog.Handler) slog.Handler{}, h.ops...), func(t slog.Handler) slog.Handler { return t.WithAttrs(as) })
	return curHandler{st: h.st, ops: ops}
}

func (h curHandler) WithGroup(name string) slog.Handler {
	ops := append(append([]func(slog.Handler) slog.Handler{}, h.ops...), func(t slog.Handler) slog.Handler { return t.WithGroup(name) })
	return curHandler{st: h.st, ops: ops}
}
