//go:build !noh2

package verifharness

import (
	"context"
	"log/slog"
	"time"

	"github.com/prometheus/client_golang/prometheus"

	"github.com/form3tech-oss/f1/v2/internal/log"
	"github.com/form3tech-oss/f1/v2/internal/metrics"
	"github.com/form3tech-oss/f1/v2/internal/progress"
	"github.com/form3tech-oss/f1/v2/internal/workers"
	"github.com/form3tech-oss/f1/v2/pkg/f1/scenarios"
	f1t "github.com/form3tech-oss/f1/v2/pkg/f1/testing"
)

// H2: the trigger pool driven tick by tick (DESIGN §3; C02, and C03/C04 at component level). Instrumented.

func h2Dropped(st *progress.Stats) uint64 {
	s := st.Snapshot(0)
	return s.DroppedIterationCount
}

func h2Main(env *Env, c *H2Cfg, sh *h2Shared) {
	st := &progress.Stats{}
	sh.stats = st
	rec := NewRecorder(env.Sim)
	logger := slog.New(rec.Handler())
	m := metrics.NewInstance(prometheus.NewRegistry(), false, nil)
	body := func(t *f1t.T) {
		b := sh.begin(env, t.Iteration)
		k := b.Idx
		d := c.BodyNs[k%len(c.BodyNs)]
		if d > 0 {
			time.Sleep(time.Duration(d))
		}
		sh.end(env, b)
	}
	scen := &scenarios.Scenario{Name: "h2", ScenarioFn: func(*f1t.T) f1t.RunFn { return body }}
	as := workers.NewActiveScenario(scen, m, st, logger, log.NewSlogLogrusLogger(logger))
	as.Setup()
	pm := workers.New(c.MaxIterations, as)
	pool := pm.NewTriggerPool(c.Concurrency)
	ctx, cancel := context.WithCancel(context.Background())
	doCancel := func() { atomicCancel(env, &sh.cancelled, &sh.cancelNs, &sh.cancelSeq, cancel) }
	workerCtx := pool.Start(ctx)
	sh.startNs = env.Sim.Now()
	if c.CancelAtNs > 0 {
		d := time.Duration(c.CancelAtNs)
		env.Sim.Go("canceller", func() {
			time.Sleep(d)
			doCancel()
		})
	}
	if c.CancelAtStep > 0 {
		env.Sim.AtStep(c.CancelAtStep, doCancel)
	}
	for i, tk := range c.Ticks {
		if tk.GapNs > 0 {
			time.Sleep(time.Duration(tk.GapNs))
		}
		tr := &h2Tick{Idx: i, N: tk.N, EnterNs: env.Sim.Now(), EnterSeq: env.Sim.Step(), DroppedBefore: h2Dropped(st)}
		tr.StartedAtEnter = len(sh.bodies)
		tr.CancelledAtEnter = sh.cancelled
		tr.LimitAtEnter = pm.MaxIterationsReached()
		env.Log("tick", int64(i), int64(tk.N), "")
		pool.Trigger(workerCtx, tk.N)
		tr.DroppedAfter = h2Dropped(st)
		tr.ExitSeq = env.Sim.Step() // the observation window of this tick ends after the drop count was read
		tr.StartedAtExit = len(sh.bodies)
		sh.ticks = append(sh.ticks, tr)
	}
	sh.limitBeforeCancel = pm.MaxIterationsReached() && !sh.cancelled
	if c.FinalCancelNs > 0 {
		time.Sleep(time.Duration(c.FinalCancelNs))
		doCancel()
	}
	sh.waitBeginNs = env.Sim.Now()
	<-pm.WaitForCompletion()
	sh.limitReached = pm.MaxIterationsReached()
	tot := st.Total()
	sh.total = tot
	sh.doneNs = env.Sim.Now()
	env.Sim.Quiesce()
	time.Sleep(50 * time.Millisecond)
	sh.leftover = leftoverF1(env.PreIDs)
	sh.finished = true
	cancel()
}
