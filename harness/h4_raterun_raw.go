//go:build !noh4

package verifharness

import (
	"encoding/json"
	"fmt"
	"math"
	"sort"
	"strings"
	"time"

	"github.com/form3tech-oss/f1/v2/internal/verifsim/simrt"
)

type H4Sched struct {
	DelayNs int64 `json:"delay"`
	FreqNs  int64 `json:"freq"`
}

type H4Op struct {
	Kind    string `json:"kind"` // restart | stop | cancel
	AfterNs int64  `json:"after"`
}

type H4Cfg struct {
	Schedules  []H4Sched `json:"schedules"`
	FnNs       []int64   `json:"fn_ns,omitempty"` // duration of invocation i (cyclic); empty = instantaneous
	PreStartNs int64     `json:"pre_start,omitempty"`
	Ops        []H4Op    `json:"ops"`
	FlushNs    int64     `json:"flush"`
}

type h4Inv struct {
	Freq             int64
	BeginNs, EndNs   int64
	BeginSeq, EndSeq uint64
	Ended            bool
}

type h4OpRec struct {
	Kind            string
	CallNs, RetNs   int64
	CallSeq, RetSeq uint64
	ExecutingAtRet  int
}

type h4Shared struct {
	invs      []*h4Inv
	ops       []h4OpRec
	executing int
	newNs     int64
	startNs   int64
	startSeq  uint64
	newErr    string
	leftover  []string
	finished  bool
}

type h4 struct{}

func init() { register(h4{}) }

func (h4) Name() string    { return "H4" }
func (h4) Props() []string { return []string{"C18"} }

func (h4) Decode(raw json.RawMessage) (any, error) {
	var c H4Cfg
	err := json.Unmarshal(raw, &c)
	return &c, err
}

func (h4) Describe(cfg any) string {
	c := cfg.(*H4Cfg)
	var ops []string
	for _, o := range c.Ops {
		ops = append(ops, o.Kind)
	}
	return fmt.Sprintf("H4 schedules=%d fn=%d ops=%s", len(c.Schedules), len(c.FnNs), strings.Join(ops, ","))
}

func (h4) Gen(prop, tier string, r *simrt.Rng) (any, simrt.Config) {
	c := &H4Cfg{}
	n := 1 + r.Intn(4)
	used := map[int64]bool{}
	var longest int64
	for i := 0; i < n; i++ {
		f := int64(simrt.Pick(r, 1, 2, 5, 10, 25, 80, 250, 1000, 10000, 60000)) * ms
		for used[f] {
			f += ms
		}
		used[f] = true
		d := int64(0)
		if i > 0 || r.Intn(2) == 0 {
			d = int64(simrt.Pick(r, 1, 3, 20, 100, 400, 1000, 5000, 60000))*ms + int64(1+2*r.Intn(400))*1000 + int64(i+1)
		}
		if i == 0 && r.Intn(3) == 0 {
			d = 1
		}
		c.Schedules = append(c.Schedules, H4Sched{DelayNs: d, FreqNs: f})
		if f > longest {
			longest = f
		}
	}
	if r.Intn(2) == 0 {
		for i, m := 0, 1+r.Intn(4); i < m; i++ {
			f := c.Schedules[r.Intn(n)].FreqNs
			c.FnNs = append(c.FnNs, simrt.Pick(r, int64(0), f/3+7, f+11, 2*f+13, 3*f+17))
		}
	}
	if r.Intn(4) == 0 {
		c.PreStartNs = int64(r.Intn(50))*ms + 19
	}
	// controller script
	span := func() int64 {
		s := c.Schedules[r.Intn(n)]
		switch r.Intn(5) {
		case 0: // exactly on a tick of some schedule (relative, so only a tie when delays are 0)
			return s.FreqNs * int64(1+r.Intn(5))
		case 1:
			return s.FreqNs*int64(1+r.Intn(5)) + int64(r.Intn(3)-1)
		case 2:
			return s.DelayNs + int64(r.Intn(3)-1) + s.FreqNs
		default:
			return int64(1+r.Intn(40)) * s.FreqNs / 7
		}
	}
	for i, m := 0, r.Intn(4); i < m; i++ {
		c.Ops = append(c.Ops, H4Op{Kind: "restart", AfterNs: max(span(), 1)})
	}
	switch r.Intn(4) {
	case 0:
		c.Ops = append(c.Ops, H4Op{Kind: "cancel", AfterNs: max(span(), 1)})
	case 1:
		c.Ops = append(c.Ops, H4Op{Kind: "cancel", AfterNs: max(span(), 1)}, H4Op{Kind: "stop", AfterNs: int64(r.Intn(3)) * ms})
	default:
		c.Ops = append(c.Ops, H4Op{Kind: "stop", AfterNs: max(span(), 1)})
	}
	if r.Intn(6) == 0 {
		// f1's own shape: a fast schedule, a slower one after a long delay, a callback that can be slower than a tick,
		// Restart while the slower schedule is active (and the callback possibly in flight), then a long look at what follows
		f0 := int64(simrt.Pick(r, 5, 10, 50)) * ms
		f1 := f0*int64(simrt.Pick(r, 3, 10)) + ms
		d1 := f0*int64(simrt.Pick(r, 40, 60)) + 3
		c.Schedules = []H4Sched{{DelayNs: 0, FreqNs: f0}, {DelayNs: d1, FreqNs: f1}}
		n, longest = 2, f1
		c.FnNs = nil
		for i, m := 0, r.Intn(4); i < m; i++ {
			c.FnNs = append(c.FnNs, simrt.Pick(r, int64(0), f0/3+7, f0/3+7, f0/4+3, f0+11, f1+13))
		}
		c.Ops = []H4Op{{Kind: "restart", AfterNs: d1 + f1*int64(1+r.Intn(3)) + int64(r.Intn(int(f1)))},
			{Kind: simrt.Pick(r, "stop", "cancel"), AfterNs: d1 / 2}}
	}
	var fnMax int64
	for _, d := range c.FnNs {
		fnMax = max(fnMax, d)
	}
	c.FlushNs = 2*longest + 8*fnMax + 23
	// bound the number of invocations: raise very small periods when the script spans a long time
	var span64 int64 = c.PreStartNs + c.FlushNs
	for _, o := range c.Ops {
		span64 += o.AfterNs
	}
	for i := range c.Schedules {
		if lim := span64 / 1500; c.Schedules[i].FreqNs < lim {
			c.Schedules[i].FreqNs = (lim/ms+1)*ms + int64(i)*ms
		}
	}
	seenF := map[int64]bool{}
	for i := range c.Schedules {
		for seenF[c.Schedules[i].FreqNs] {
			c.Schedules[i].FreqNs += ms
		}
		seenF[c.Schedules[i].FreqNs] = true
	}
	sc := simrt.Config{
		Strategy: simrt.Pick(r, "sticky", "sticky", "rw", "pct", "delay"), SwitchProb: simrt.Pick(r, 0.02, 0.1, 0.3),
		PCTDepth: 1 + r.Intn(3), PCTSteps: 300, DelayMod: 3 + r.Intn(4), SelectShuffle: simrt.Pick(r, 0.0, 0.3, 0.7),
		MaxSimNs: int64(6 * time.Hour), MaxSteps: 300000,
	}
	if r.Intn(4) == 0 {
		sc.StallPermille, sc.StallMaxMs, sc.MaxStalls = simrt.Pick(r, 5, 20), simrt.Pick(r, 3, 50, 500), 1+r.Intn(3)
		c.FlushNs += int64(sc.MaxStalls) * int64(sc.StallMaxMs+1) * ms
	}
	return c, sc
}

func (h4) NonTrivial(prop string, env *Env, st simrt.Stats) bool {
	return env.Cover["h4.invocations"] > 0 && env.Cover["h4.end_checked"] > 0
}

func (h h4) Run(env *Env, cfg any) {
	c := cfg.(*H4Cfg)
	sh := &h4Shared{}
	env.Sim.GoMain("controller", func() { h4Main(env, c, sh) })
	env.Sim.Run()
	stats := env.Sim.Stats()
	if !sh.finished {
		if stats.TimeCapHit {
			env.Violate("C18", "controller-blocked", "raterun/"+blockedSig(stats.Blocked), "controller script never finished: %s", strings.Join(stats.Blocked, "; "))
		} else {
			env.PrecondNotMet("C18")
		}
		return
	}
	if sh.newErr != "" {
		env.PrecondNotMet("C18")
		return
	}
	env.Cover = map[string]uint64{"h4.invocations": uint64(len(sh.invs))}
	idxOf := map[int64]int{}
	for i, s := range c.Schedules {
		idxOf[s.FreqNs] = i
	}
	// reference: earliest possible activation instants of each schedule
	type act struct {
		idx int
		at  int64
	}
	var acts []act
	base := max(sh.startNs, sh.newNs+c.Schedules[0].DelayNs)
	chain := func(from int64) {
		at := from
		acts = append(acts, act{0, at})
		for k := 1; k < len(c.Schedules); k++ {
			at += c.Schedules[k].DelayNs
			acts = append(acts, act{k, at})
		}
	}
	chain(base)
	var restarts []h4OpRec
	endNs, endSeq := int64(-1), uint64(0)
	stopRetSeq := uint64(0)
	haveStop := false
	for _, o := range sh.ops {
		switch o.Kind {
		case "restart":
			restarts = append(restarts, o)
		case "cancel":
			if endNs < 0 {
				endNs, endSeq = o.CallNs, o.CallSeq
			}
		case "stop":
			if endNs < 0 {
				endNs, endSeq = o.CallNs, o.CallSeq
			}
			if !haveStop {
				haveStop, stopRetSeq = true, o.RetSeq
			}
			if o.ExecutingAtRet != 0 {
				env.Violate("C18", "fn-executing-when-stop-returned", "raterun/stop", "Stop returned while the function was still executing (began %s)", lastBegin(sh))
			}
		}
	}
	_ = endSeq
	prevIdx := -1
	decreases := 0
	var fnMax int64
	for _, d := range c.FnNs {
		fnMax = max(fnMax, d)
	}
	var prev *h4Inv
	for i, inv := range sh.invs {
		k, ok := idxOf[inv.Freq]
		if !ok {
			env.Violate("C18", "unknown-frequency", "raterun/freq", "function invoked with frequency %s which no schedule configures", dur(inv.Freq))
			continue
		}
		if inv.BeginSeq <= sh.startSeq {
			env.Violate("C18", "invoked-before-start", "raterun/start", "invocation %d began before Start was called", i)
		}
		if haveStop && inv.BeginSeq > stopRetSeq {
			env.Violate("C18", "invoked-after-stop", "raterun/stop", "invocation %d (frequency %s) began at %s, after Stop had returned", i, dur(inv.Freq), dur(inv.BeginNs))
		}
		// the schedule index only moves forward, except after a Restart: every step back needs its own
		// Restart call made before the invocation began (a Restart may be handled long after it was called)
		if k < prevIdx {
			decreases++
			called := 0
			for _, ro := range restarts {
				if ro.CallSeq <= inv.BeginSeq {
					called++
				}
			}
			if decreases > called {
				env.Violate("C18", "schedule-went-back", "raterun/order", "invocation %d uses schedule %d after schedule %d: %d steps back but only %d Restart calls so far", i, k, prevIdx, decreases, called)
			}
		}
		// not before the schedule could have been activated (+ one period)
		earliest := int64(-1)
		for _, a := range acts {
			if a.idx == k {
				earliest = a.at
			}
		}
		for _, ro := range restarts {
			at := ro.CallNs
			for j := 1; j <= k; j++ {
				at += c.Schedules[j].DelayNs
			}
			if at+inv.Freq <= inv.BeginNs && (earliest < 0 || true) {
				// a restart makes an earlier (re)activation possible
				if at < earliest {
					earliest = at
				}
			}
		}
		if earliest >= 0 && inv.BeginNs < earliest+inv.Freq {
			env.Violate("C18", "schedule-entered-early", "raterun/delay", "invocation %d of schedule %d (every %s) at %s; that schedule could not be active before %s", i, k, dur(inv.Freq), dur(inv.BeginNs), dur(earliest))
		}
		// at most one invocation per tick. A tick that fires while the function runs is kept (one at most), so
		// consecutive invocations can be close; but invocation i+2 consumes a tick that fired at least one
		// period after invocation i began. With a function much faster than the period, consecutive
		// invocations are a full period apart.
		if i >= 2 && stats.Stalls == 0 {
			pp := sh.invs[i-2]
			if pp.Freq == inv.Freq && prev.Freq == inv.Freq && !restartBetween(restarts, pp, inv) && inv.BeginNs-pp.BeginNs < inv.Freq {
				env.Violate("C18", "more-than-once-per-tick", "raterun/tick", "invocations %d and %d of the schedule every %s are only %s apart", i-2, i, dur(inv.Freq), dur(inv.BeginNs-pp.BeginNs))
			}
		}
		if prev != nil && prev.Freq == inv.Freq && stats.Stalls == 0 && fnMax < inv.Freq/2 && !restartBetween(restarts, prev, inv) && inv.BeginNs-prev.BeginNs < inv.Freq {
			env.Violate("C18", "more-than-once-per-tick", "raterun/tick", "invocations %d and %d of the schedule every %s are only %s apart (function takes at most %s)", i-1, i, dur(inv.Freq), dur(inv.BeginNs-prev.BeginNs), dur(fnMax))
		}
		prevIdx, prev = k, inv
	}
	if len(sh.leftover) > 0 {
		env.Violate("C18", "goroutine-left", "leak/"+leakSig(sh.leftover), "after Stop/cancel and %s of quiet time a runner goroutine remains: %s", dur(c.FlushNs), strings.Join(sh.leftover, " | "))
	}
	env.Hit("h4.end_checked")
	// Restart moves back to the first schedule: once a Restart made after Start has had time to be handled (the
	// function in flight and a few pending ticks: the runner handles one event at a time), and until the second
	// schedule's start delay has passed again, every invocation is the first schedule's
	// (Only where the callback takes less than half of the shortest period: then the loop is back in its select, with
	// no tick ready, before the next tick is due, and a pending Restart is the only thing it can take. With a callback
	// as slow as a tick some tick is ready at every pass, Go's select chooses among the ready cases at random, and a
	// Restart can lose that draw any number of times - found by the last thorough soak, 1 run in 1.7 million.)
	var minFreq, maxFreq int64 = math.MaxInt64, 0
	for _, sc := range c.Schedules {
		minFreq, maxFreq = min(minFreq, sc.FreqNs), max(maxFreq, sc.FreqNs)
	}
	if len(c.Schedules) > 1 && sh.startSeq > 0 && 2*fnMax < minFreq {
		slack := fnMax + maxFreq + int64(stats.Stalls)*(int64(max(env.SimCfg.StallMaxMs, 0))*ms+ms)
		for _, ro := range restarts {
			if ro.CallNs < sh.startNs || (endNs >= 0 && ro.CallNs >= endNs) {
				continue
			}
			lo, hi := ro.CallNs+slack, ro.CallNs+c.Schedules[1].DelayNs
			if endNs >= 0 && endNs < hi {
				hi = endNs
			}
			for i, inv := range sh.invs {
				if inv.BeginNs > lo && inv.BeginNs < hi && inv.Freq != c.Schedules[0].FreqNs {
					env.Violate("C18", "restart-lost", "raterun/restart", "invocation %d at %s still carries frequency %s, %s after Restart was called at %s: the first schedule (%s) is the active one until %s",
						i, dur(inv.BeginNs), dur(inv.Freq), dur(inv.BeginNs-ro.CallNs), dur(ro.CallNs), dur(c.Schedules[0].FreqNs), dur(ro.CallNs+c.Schedules[1].DelayNs))
					return
				}
			}
			if hi > lo {
				env.Hit("h4.restart_effect_checked")
			}
		}
	}
	// exact reference for instantaneous functions in stall-free runs without restarts racing ticks
	if len(c.FnNs) == 0 && stats.Stalls == 0 {
		var want []int64
		type seg struct {
			from int64
			acts []act
		}
		segs := []seg{{from: base}}
		for _, ro := range restarts {
			segs = append(segs, seg{from: ro.CallNs})
		}
		sort.Slice(segs, func(i, j int) bool { return segs[i].from < segs[j].from })
		ambiguous := false
		for si, sg := range segs {
			until := endNs
			if si+1 < len(segs) && (until < 0 || segs[si+1].from < until) {
				until = segs[si+1].from
			}
			at := sg.from
			for k := 0; k < len(c.Schedules); k++ {
				if k > 0 {
					at += c.Schedules[k].DelayNs
				}
				next := until
				if k+1 < len(c.Schedules) {
					n2 := at + c.Schedules[k+1].DelayNs
					if next < 0 || n2 < next {
						next = n2
					}
				}
				if until >= 0 && at >= until {
					break
				}
				for t := at + c.Schedules[k].FreqNs; next < 0 || t <= next; t += c.Schedules[k].FreqNs {
					if t == next {
						ambiguous = true
						break
					}
					want = append(want, t)
					if len(want) > 100000 {
						break
					}
				}
			}
		}
		// a restart requested before the runner was started or while a previous one is pending changes nothing observable
		if !ambiguous && endNs >= 0 && sh.startNs >= sh.newNs+c.Schedules[0].DelayNs || (!ambiguous && endNs >= 0 && len(restarts) == 0) {
			var got []int64
			for _, inv := range sh.invs {
				got = append(got, inv.BeginNs)
			}
			if !equalI64(got, want) {
				env.Violate("C18", "invocation-instants-differ", "raterun/reference", "invocation instants %s differ from the schedule reference %s", fmtTimes(got), fmtTimes(want))
			}
			env.Hit("h4.exact_reference_checked")
		}
	}
}

func restartBetween(restarts []h4OpRec, a, b *h4Inv) bool {
	for _, ro := range restarts {
		if ro.CallSeq <= b.BeginSeq {
			return true // a Restart called earlier may be handled at any later point
		}
	}
	return false
}

func lastBegin(sh *h4Shared) string {
	if len(sh.invs) == 0 {
		return "?"
	}
	return dur(sh.invs[len(sh.invs)-1].BeginNs).String()
}

func equalI64(a, b []int64) bool {
	if len(a) != len(b) {
		return false
	}
	for i := range a {
		if a[i] != b[i] {
			return false
		}
	}
	return true
}

func fmtTimes(ts []int64) string {
	var p []string
	for i, t := range ts {
		if i >= 12 {
			p = append(p, fmt.Sprintf("… (%d)", len(ts)))
			break
		}
		p = append(p, dur(t).String())
	}
	return "[" + strings.Join(p, " ") + "]"
}
