package verifharness

import (
	"encoding/json"
	"fmt"
	"strings"
	"time"

	"github.com/form3tech-oss/f1/v2/internal/verifsim/simrt"
)

// Behaviours of generated scenario code (setup, iteration bodies, cleanups).
const (
	bPass = iota
	bFail
	bFailNow
	bError
	bErrorf
	bFatal
	bFatalf
	bRequire
	bPanicErr
	bPanicStr
	bPanicStruct
	bPanicNil
	bNilMap
	bIndex
	bHelperErrorf
	bPanicSlice
	bPanicMap
	bPanicFunc
	bPanicNilStringer // a value whose String method itself panics (nil *url.URL)
	bPanicBadError    // an error whose Error method panics
	bCount
)

var behavNames = []string{"pass", "Fail", "FailNow", "Error", "Errorf", "Fatal", "Fatalf", "Require", "panic(error)",
	"panic(string)", "panic(struct)", "panic(nil)", "nil-map-write", "index-out-of-range", "helper-goroutine-Errorf", "panic([]string)", "panic(map)", "panic(func)", "panic(nil-Stringer)", "panic(error-whose-Error-panics)"}

func behavFails(b int) bool { return b != bPass }

// behavStops says whether the behaviour stops the function it occurs in.
func behavStops(b int) bool {
	switch b {
	case bPass, bFail, bError, bErrorf, bHelperErrorf:
		return false
	}
	return true
}

type CleanupPlan struct {
	Behav   int   `json:"b,omitempty"`
	SleepNs int64 `json:"sleep,omitempty"`
}

type IterPlan struct {
	Behav        int           `json:"b,omitempty"`
	SleepNs      int64         `json:"sleep,omitempty"`       // body duration before the behaviour takes place
	After        int64         `json:"after,omitempty"`       // extra sleep after a non-stopping behaviour
	LateHelperNs int64         `json:"late_helper,omitempty"` // a goroutine started by the body calls Errorf this long after the body returned
	RacyHelper   bool          `json:"racy_helper,omitempty"` // the body signals a helper goroutine that calls Errorf and does not wait for it
	Cleanups     []CleanupPlan `json:"cleanups,omitempty"`
	// CleanupsLate: register the cleanups after the sleep instead of at the start
	CleanupsLate bool `json:"late,omitempty"`
	// InTimeStage: the behaviour happens inside t.Time("stage", ...)
	InTimeStage bool `json:"in_time,omitempty"`
	// EmptyStage: ... with an empty stage name (legal)
	EmptyStage bool `json:"empty_stage,omitempty"`
}

func (p IterPlan) stageName() string {
	if p.EmptyStage {
		return ""
	}
	return "stage"
}

type ComponentPlan struct {
	SetupBehav int   `json:"setup_b,omitempty"`
	IterBehav  []int `json:"iter_b,omitempty"`  // per invocation (cyclic); empty = pass
	InTime     bool  `json:"in_time,omitempty"` // the behaviour happens inside t.Time(...)
}

type ScenarioProg struct {
	SetupBehav       int             `json:"setup_b,omitempty"`
	SetupSleepNs     int64           `json:"setup_sleep,omitempty"`
	SetupLateErrorNs int64           `json:"setup_late_error,omitempty"` // a goroutine started by setup reports an error on the setup handle this long after setup returned
	SetupCleanups    []CleanupPlan   `json:"setup_cleanups,omitempty"`
	SetupRegLate     bool            `json:"setup_reg_late,omitempty"` // register cleanups after the behaviour point (never reached if it stops)
	Iter             []IterPlan      `json:"iter"`                     // plan of invocation i is Iter[i % len]
	Rendezvous       int             `json:"rendezvous,omitempty"`     // bodies wait until this many overlap (C04 lower bound)
	RendezvousNs     int64           `json:"rendezvous_timeout,omitempty"`
	Components       []ComponentPlan `json:"components,omitempty"` // C20: combined scenario
}

type H1Cfg struct {
	Driver            string            `json:"driver"` // api | cli
	Mode              string            `json:"mode"`
	Flags             map[string]string `json:"flags,omitempty"`
	Concurrency       int               `json:"concurrency"`
	MaxDurationNs     int64             `json:"max_duration"`
	MaxIterations     uint64            `json:"max_iterations,omitempty"`
	WaitTimeoutNs     int64             `json:"wait_timeout"`
	IgnoreDropped     bool              `json:"ignore_dropped,omitempty"`
	MaxFailures       uint64            `json:"max_failures,omitempty"`
	MaxFailRate       int               `json:"max_failures_rate,omitempty"`
	Verbose           bool              `json:"verbose,omitempty"`
	Interactive       bool              `json:"interactive,omitempty"`
	Metrics           bool              `json:"metrics,omitempty"`
	StaticLabels      [][2]string       `json:"static_labels,omitempty"`
	Runs              int               `json:"runs,omitempty"`                // consecutive runs on one metrics instance
	SameScenario      bool              `json:"same_scenario,omitempty"`       // ... all of the same scenario name
	Run2Plain         bool              `json:"run2_plain,omitempty"`          // runs after the first leave every limit at its default (flags omitted)
	SignalBetweenRuns bool              `json:"signal_between_runs,omitempty"` // f1 driver: SIGINT arrives while no run is active
	C01LateCancel     bool              `json:"c01_late_cancel,omitempty"`
	LateHelper        bool              `json:"late_helper_profile,omitempty"`
	RacyHelper        bool              `json:"racy_helper_profile,omitempty"` // outcomes of iterations with a racy helper are not predicted
	Flags1            map[string]string `json:"flags_first_run,omitempty"`     // trigger flags of the first run only (later runs use Flags): nothing of them may survive
	FilePathKind      string            `json:"file_path_kind,omitempty"`      // file mode: "dir" = the path names a directory, "missing" = nothing there
	MemProfile        bool              `json:"memprofile,omitempty"`          // driver f1: pass --memprofile
	C03Overload       bool              `json:"c03_overload,omitempty"`
	Prog              ScenarioProg      `json:"prog"`
	CancelAtNs        int64             `json:"cancel_at,omitempty"`   // after Do was called; <0 = cancel before Do
	CancelAtStep      uint64            `json:"cancel_step,omitempty"` // scheduler step (asynchronous signal)
	CancelAtSite      string            `json:"cancel_site,omitempty"` // … or CancelSitePlus steps after the nth arrival of any task at such a yield site
	CancelSiteNth     int               `json:"cancel_site_nth,omitempty"`
	CancelSitePlus    uint64            `json:"cancel_site_plus,omitempty"`
	StartOffsetNs     int64             `json:"start_offset,omitempty"`
	FileYAML          string            `json:"file_yaml,omitempty"`
	OutputFailAtNs    int64             `json:"output_fail_at,omitempty"` // the terminal's stdout starts failing (EIO) this long after the run was started
	SlowOutputNs      int64             `json:"slow_output,omitempty"`    // every progress line takes this long to write
	// expectations computed by the generator (not by reading f1): tick interval / per-tick rate when constant & undistributed
	TickNs   int64 `json:"tick,omitempty"`
	TickRate int   `json:"tick_rate,omitempty"`
	// TrigDurNs is the trigger's own total duration (staged/ramp) as the generator configured it
	TrigDurNs int64 `json:"trig_dur,omitempty"`
	TieFree   bool  `json:"tie_free,omitempty"`
	// H6
	Input   *InputExpect `json:"input,omitempty"`
	File    *FileExpect  `json:"file,omitempty"`
	ReadEnv []string     `json:"read_env,omitempty"`
}

func (c *H1Cfg) plan(i int) IterPlan {
	if len(c.Prog.Iter) == 0 {
		return IterPlan{}
	}
	return c.Prog.Iter[i%len(c.Prog.Iter)]
}

func odd(r *simrt.Rng) int64 { return int64(1+2*r.Intn(400))*1000 + int64(1+r.Intn(900)) } // µs-odd offset, never a ms multiple

func durStr(ns int64) string { return time.Duration(ns).String() }

// genTrigger fills Mode/Flags/TickNs/TickRate.
func genTrigger(c *H1Cfg, r *simrt.Rng, mode string, small bool) {
	c.Mode = mode
	c.Flags = map[string]string{}
	dist := simrt.Pick(r, "none", "none", "regular", "random")
	switch mode {
	case "constant":
		iv := simrt.Pick(r, int64(10), 20, 50, 100, 100, 200, 250, 500, 1000)
		rate := r.Intn(9)
		if r.Intn(6) == 0 {
			rate = r.Intn(13)
		}
		c.Flags["rate"] = fmt.Sprintf("%d/%dms", rate, iv)
		if iv == 1000 && r.Intn(2) == 0 {
			c.Flags["rate"] = simrt.Pick(r, fmt.Sprintf("%d/s", rate), fmt.Sprintf("%d", rate), fmt.Sprintf("%d/1s", rate))
		}
		c.Flags["distribution"] = dist
		if r.Intn(5) == 0 {
			c.Flags["jitter"] = simrt.Pick(r, "10", "50", "99")
		}
		if dist == "none" && c.Flags["jitter"] == "" {
			c.TickNs, c.TickRate = iv*int64(time.Millisecond), rate
		}
	case "staged":
		n := 1 + r.Intn(4)
		var st []string
		var total int64
		for i := 0; i < n; i++ {
			d := simrt.Pick(r, int64(0), 100, 200, 300, 500, 1000, 1500)
			total += d
			st = append(st, fmt.Sprintf("%dms:%d", d, r.Intn(12)))
		}
		c.Flags["stages"] = strings.Join(st, ",")
		c.Flags["iterationFrequency"] = simrt.Pick(r, "50ms", "100ms", "200ms", "500ms", "1s")
		c.Flags["distribution"] = dist
		c.TrigDurNs = total * int64(time.Millisecond)
	case "ramp":
		unit := simrt.Pick(r, int64(50), 100, 200, 1000)
		a, b := r.Intn(10), r.Intn(10)
		if a == b {
			b = a + 1 + r.Intn(5)
		}
		c.Flags["start-rate"] = fmt.Sprintf("%d/%dms", a, unit)
		c.Flags["end-rate"] = fmt.Sprintf("%d/%dms", b, unit)
		rd := unit * int64(1+r.Intn(20))
		c.Flags["ramp-duration"] = fmt.Sprintf("%dms", rd)
		c.Flags["distribution"] = dist
	case "gaussian":
		freq := simrt.Pick(r, int64(100), 200, 500, 1000)
		rep := freq * int64(simrt.Pick(r, 10, 20, 60, 100))
		c.Flags["iteration-frequency"] = fmt.Sprintf("%dms", freq)
		c.Flags["repeat"] = fmt.Sprintf("%dms", rep)
		c.Flags["peak"] = fmt.Sprintf("%dms", r.Int63n(rep+1))
		c.Flags["standard-deviation"] = fmt.Sprintf("%dms", freq*int64(1+r.Intn(20)))
		c.Flags["volume"] = fmt.Sprintf("%d", 10+r.Intn(300))
		c.Flags["distribution"] = dist
		if r.Intn(4) == 0 {
			c.Flags["weights"] = simrt.Pick(r, "1,2", "0.5,1,1.5", "1")
		}
	case "users":
	}
}

func genIterPlans(r *simrt.Rng, n int, failShare float64, maxSleepMs int, cleanups int, behavs []int) []IterPlan {
	var out []IterPlan
	for i := 0; i < n; i++ {
		p := IterPlan{}
		if maxSleepMs > 0 {
			switch r.Intn(4) {
			case 0:
			case 1:
				p.SleepNs = int64(1+r.Intn(maxSleepMs))*int64(time.Millisecond) + odd(r)%1000000
			default:
				p.SleepNs = int64(1+r.Intn(max(maxSleepMs/4, 1)))*int64(time.Millisecond) + odd(r)%1000000
			}
		}
		if r.Float64() < failShare {
			p.Behav = behavs[r.Intn(len(behavs))]
			if !behavStops(p.Behav) && r.Intn(3) == 0 {
				p.After = int64(1+r.Intn(5))*int64(time.Millisecond) + 13
			}
		}
		for j, m := 0, r.Intn(cleanups+1); j < m; j++ {
			cp := CleanupPlan{}
			if r.Intn(4) == 0 {
				cp.Behav = simrt.Pick(r, bFail, bFailNow, bPanicErr, bPanicStr, bErrorf)
			}
			if r.Intn(3) == 0 {
				cp.SleepNs = int64(1+r.Intn(8))*int64(time.Millisecond) + 17
			}
			p.Cleanups = append(p.Cleanups, cp)
		}
		p.CleanupsLate = r.Intn(4) == 0
		p.InTimeStage = r.Intn(5) == 0
		p.EmptyStage = p.InTimeStage && r.Intn(2) == 0
		out = append(out, p)
	}
	return out
}

var allFailBehavs = func() []int {
	var b []int
	for i := 1; i < bCount; i++ {
		b = append(b, i)
	}
	return b
}()

func genSimCfg(r *simrt.Rng, faults bool) simrt.Config {
	sc := simrt.Config{
		Strategy:      simrt.Pick(r, "sticky", "sticky", "sticky", "rw", "pct", "delay", "rr"),
		SwitchProb:    simrt.Pick(r, 0.005, 0.02, 0.05, 0.2),
		PCTDepth:      1 + r.Intn(4),
		PCTSteps:      3000,
		DelayMod:      3 + r.Intn(6),
		SelectShuffle: simrt.Pick(r, 0.0, 0.1, 0.5),
		MaxSteps:      600000,
		MaxSimNs:      int64(30 * time.Minute),
	}
	if faults && r.Intn(3) == 0 {
		sc.StallPermille = simrt.Pick(r, 1, 2, 5)
		sc.StallMaxMs = simrt.Pick(r, 5, 30, 200, 1500)
		sc.MaxStalls = 1 + r.Intn(4)
	}
	return sc
}

type h1 struct{}

func init() { register(h1{}) }

func (h1) Name() string { return "H1" }
func (h1) Props() []string {
	return []string{"C01", "C02", "C03", "C04", "C05", "C06", "C07", "C08", "C09", "C16", "C17", "C19", "C20"}
}

func (h1) Decode(raw json.RawMessage) (any, error) {
	var c H1Cfg
	err := json.Unmarshal(raw, &c)
	return &c, err
}

// Ties: f1's own progress schedule switches from 1 s to 10 s ticks after exactly one minute, i.e. at the same
// simulated instant as the 60th one-second tick, and both timers feed one select of the progress runner. The
// order of two timers due at the same instant is the one thing the simulator does not control (DESIGN §2.3):
// runs that reach the one-minute mark are explored and judged (the oracles do not depend on that order) but are
// excluded from the replay-exactness accounting.
// forRun returns the configuration in force for run i of the simulated process.
func (c *H1Cfg) forRun(i int) *H1Cfg {
	if i == 0 && c.Flags1 != nil {
		cc := *c
		cc.Flags, cc.TickNs, cc.TickRate = c.Flags1, 0, 0
		return &cc
	}
	if i == 0 || !c.Run2Plain {
		return c
	}
	cc := *c
	cc.MaxIterations, cc.MaxFailures, cc.MaxFailRate, cc.IgnoreDropped = 0, 0, 0, false
	return &cc
}

func (h1) Ties(cfg any) bool {
	c := cfg.(*H1Cfg)
	// (an unexportable stage parameter makes f1 report an error from inside a loop over a Go map: where in the
	// event log it lands depends on the map's iteration order, which the simulator does not control)
	return c.MaxDurationNs >= int64(59*time.Second) || strings.Contains(c.FileYAML, "F1V=BAD")
}

func (h1) Describe(cfg any) string {
	c := cfg.(*H1Cfg)
	return fmt.Sprintf("H1 %s/%s c=%d maxdur=%s maxiter=%d flags=%v cancel=%s/%d plans=%d", c.Driver, c.Mode, c.Concurrency,
		durStr(c.MaxDurationNs), c.MaxIterations, c.Flags, durStr(c.CancelAtNs), c.CancelAtStep, len(c.Prog.Iter))
}

// Gen draws a whole-run configuration, biased by the property being checked.
func (h h1) Gen(prop, tier string, r *simrt.Rng) (any, simrt.Config) {
	c := &H1Cfg{Driver: "api", Runs: 1}
	thorough := tier == "thorough"
	modes := []string{"constant", "constant", "staged", "ramp", "gaussian", "users"}
	mode := modes[r.Intn(len(modes))]
	c.Concurrency = 1 + r.Intn(6)
	if r.Intn(10) == 0 {
		c.Concurrency = simrt.Pick(r, 8, 16, 32)
	}
	c.MaxDurationNs = int64(simrt.Pick(r, 30, 100, 300, 500, 1000, 1500, 2500))*int64(time.Millisecond) + 10*int64(time.Millisecond) + odd(r)
	if thorough && r.Intn(6) == 0 {
		c.MaxDurationNs = int64(simrt.Pick(r, 5, 12, 65, 70))*int64(time.Second) + odd(r)
	}
	c.WaitTimeoutNs = int64(simrt.Pick(r, 20, 50, 200, 1000, 10000))*int64(time.Millisecond) + odd(r)
	c.Verbose = r.Intn(3) == 0
	c.Interactive = r.Intn(3) == 0
	c.Metrics = r.Intn(2) == 0
	faults := true
	failShare := simrt.Pick(r, 0.0, 0.0, 0.1, 0.3)
	maxSleep := simrt.Pick(r, 0, 5, 30, 120)
	cleanups := simrt.Pick(r, 0, 0, 1, 3)
	behavs := allFailBehavs
	nplans := 1 + r.Intn(12)

	switch prop {
	case "C01":
		// completions landing on progress-tick instants: bodies sleeping exact multiples of 100 ms,
		// runs longer than one progress period
		c.MaxDurationNs = int64(simrt.Pick(r, 1100, 2100, 3200))*int64(time.Millisecond) + odd(r)
		if thorough && r.Intn(5) == 0 {
			c.MaxDurationNs = int64(simrt.Pick(r, 12, 65, 85))*int64(time.Second) + odd(r)
		}
		if r.Intn(40) == 0 {
			c.MaxDurationNs = int64(simrt.Pick(r, 76, 85))*int64(time.Second) + odd(r)
			c.C01LateCancel = true // interrupted after f1 moved to its slower progress schedule and reported once on it
		}
		c.Metrics = r.Intn(3) != 0
		c.WaitTimeoutNs = 10*int64(time.Second) + odd(r)
	case "C03":
		c.MaxIterations = uint64(simrt.Pick(r, 1, 2, max(c.Concurrency-1, 1), c.Concurrency, c.Concurrency+1, 7, 50))
		if r.Intn(4) == 0 {
			c.Concurrency = simrt.Pick(r, 16, 32, 64)
			c.MaxIterations = uint64(simrt.Pick(r, c.Concurrency-1, c.Concurrency, c.Concurrency+1, 2*c.Concurrency+3))
		}
		maxSleep = simrt.Pick(r, 0, 0, 3, 20)
		if r.Intn(4) == 0 {
			c.C03Overload = true // set up below: more requests per tick than workers, bodies longer than a tick
		}
	case "C04":
		mode = simrt.Pick(r, "constant", "constant", "staged", "ramp", "gaussian", "users", "users")
	case "C05":
		maxSleep = simrt.Pick(r, 0, 30, 300, 3000)
		if r.Intn(25) == 0 {
			c.MaxDurationNs = simrt.Pick(r, int64(1), 5*ms, 10*ms) // not longer than the 10 ms guard: over before it begins
		}
		if r.Intn(6) == 0 {
			c.Driver = simrt.Pick(r, "f1", "cli") // the public entry point and the command wrap the run: they must end with it
		}
	case "C06":
		cleanups = simrt.Pick(r, 1, 2, 3)
		failShare = simrt.Pick(r, 0.1, 0.3, 0.6)
		if r.Intn(4) == 0 {
			c.Runs, c.SameScenario = 2, r.Intn(3) != 0 // the same registered scenario run again in one process
		}
	case "C07":
		failShare = simrt.Pick(r, 0.3, 0.6, 1.0)
		nplans = 3 + r.Intn(30)
	case "C08":
		c.Driver = simrt.Pick(r, "api", "api", "cli", "cli", "f1")
		if c.Driver != "api" {
			c.Interactive = false // the counts are read from the structured summary record
		}
		if c.Driver == "f1" {
			c.Verbose = true // no log file per run
			c.MemProfile = r.Intn(2) == 0
			c.Metrics = false
		}
		c.IgnoreDropped = r.Intn(2) == 0
		c.MaxFailures = uint64(simrt.Pick(r, 0, 0, 1, 2, 5))
		c.MaxFailRate = simrt.Pick(r, 0, 0, 1, 5, 10, 50, 99, 100)
		behavs = []int{bFail, bFailNow, bPanicErr}
		failShare = simrt.Pick(r, 0.0, 0.05, 0.1, 0.5, 1.0)
		nplans = simrt.Pick(r, 1, 7, 10, 17, 20, 33)
	case "C16":
		c.Metrics = r.Intn(5) != 0 // iteration metrics off (f1's default without a push gateway): the setup metric is still exported
		c.Runs = 1 + r.Intn(3)
		c.SameScenario = r.Intn(2) == 0
		if r.Intn(4) == 0 {
			c.Driver = "f1" // the process-wide metrics instance, which T.Time stages record into as well
		}
	case "C19":
		c.Interactive = r.Intn(2) == 0
		c.Verbose = false
	case "C20":
		if r.Intn(4) == 0 {
			c.Runs, c.SameScenario = 2, r.Intn(3) != 0 // the same combined scenario value set up by two runs
		}
		nc := 1 + r.Intn(6)
		for i := 0; i < nc; i++ {
			cp := ComponentPlan{}
			if r.Intn(6) == 0 {
				cp.SetupBehav = simrt.Pick(r, bFail, bFailNow, bPanicErr, bPanicStr)
			}
			for j, m := 0, r.Intn(5); j < m; j++ {
				cp.IterBehav = append(cp.IterBehav, simrt.Pick(r, bPass, bPass, bPass, bFail, bFailNow, bPanicErr, bPanicStr, bFatalf, bRequire))
			}
			cp.InTime = r.Intn(3) == 0
			c.Prog.Components = append(c.Prog.Components, cp)
		}
	}
	small := true
	genTrigger(c, r, mode, small)
	if c.TrigDurNs > 0 && c.Mode == "staged" && r.Intn(2) == 0 {
		// let the trigger's own duration end the run sometimes
		c.MaxDurationNs = c.TrigDurNs + int64(simrt.Pick(r, 50, 500))*int64(time.Millisecond) + odd(r)
	}
	c.Prog.Iter = genIterPlans(r, nplans, failShare, maxSleep, cleanups, behavs)

	// setup
	if r.Intn(3) == 0 {
		c.Prog.SetupSleepNs = int64(1+r.Intn(50))*int64(time.Millisecond) + 29
		if r.Intn(4) == 0 {
			// a setup that takes as long as many ticks, or longer than the whole run: nothing is counted from before it ended
			c.Prog.SetupSleepNs = int64(simrt.Pick(r, 300, 1200, 11000))*int64(time.Millisecond) + 29
		}
	}
	if prop == "C06" || r.Intn(4) == 0 {
		for j, m := 0, 1+r.Intn(3); j < m; j++ {
			cp := CleanupPlan{}
			if (prop == "C06" && r.Intn(4) == 0) || r.Intn(12) == 0 {
				cp.Behav = simrt.Pick(r, bFail, bFailNow, bPanicErr, bPanicStr)
			}
			if r.Intn(3) == 0 {
				cp.SleepNs = int64(1+r.Intn(20))*int64(time.Millisecond) + 31
				if (prop == "C06" || prop == "C05" || prop == "C08") && r.Intn(6) == 0 {
					cp.SleepNs = int64(simrt.Pick(r, 700, 10500, 31000))*int64(time.Millisecond) + 31 // teardown takes as long as it takes
				}
			}
			c.Prog.SetupCleanups = append(c.Prog.SetupCleanups, cp)
		}
		c.Prog.SetupRegLate = r.Intn(4) == 0
	}
	if (prop == "C02" || prop == "C03" || prop == "C01") && r.Intn(12) == 0 {
		// setup leaves a goroutine behind that reports an error on the setup handle while iterations are running: the
		// run has started, its iterations are run and counted as before
		c.Prog.SetupLateErrorNs = r.Int63n(max(c.MaxDurationNs/2, 2)) + 1009
	}
	setupFailP := 20
	if prop == "C06" || prop == "C05" || prop == "C08" {
		setupFailP = 6
	}
	if r.Intn(setupFailP) == 0 {
		c.Prog.SetupBehav = simrt.Pick(r, bFail, bFailNow, bError, bFatal, bPanicErr, bPanicStr, bRequire)
	}

	// endings
	if prop != "C03" && r.Intn(5) == 0 {
		c.MaxIterations = uint64(simrt.Pick(r, 1, 3, c.Concurrency, c.Concurrency+1, 20))
	}
	cancelP := 5
	if prop == "C05" || prop == "C06" {
		cancelP = 2
	}
	if prop == "C01" || prop == "C09" {
		cancelP = 10
	}
	if r.Intn(cancelP) == 0 {
		if k := r.Intn(4); k == 0 {
			c.CancelAtStep = uint64(1 + r.Intn(4000))
		} else if k == 1 {
			// the signal arrives while f1 is at a particular point of its own protocol: pools starting, a stage handing
			// over, the completion wait, progress being collected, teardown (names that match nothing never fire)
			c.CancelAtSite = simrt.Pick(r, "ContinuousPool.Start", "ContinuousPool.startWorker", "TriggerPool.Start", "TriggerPool.stop", "PoolManager.WaitForCompletion",
				"PoolManager.NextIteration", "ActiveScenario.Setup", "ActiveScenario.Run", "run.Run.run", "run.Run.Do", "Result.", "raterun.", "stagesWorker", "api.NewIterationWorker",
				"users.", "testing.T.teardown", "progress.Stats")
			c.CancelSiteNth = simrt.Pick(r, 1, 1, 1, 2, 3, 5, 20)
			c.CancelSitePlus = uint64(simrt.Pick(r, 0, 1, 2, 3, 5, 8, 13, 30))
		} else {
			switch r.Intn(8) {
			case 0:
				c.CancelAtNs = -1 // before Do
			case 1:
				c.CancelAtNs = 1 // immediately
			default:
				c.CancelAtNs = r.Int63n(c.MaxDurationNs+c.WaitTimeoutNs/2) + 1
			}
		}
	}
	if c.C01LateCancel {
		c.CancelAtStep, c.CancelAtSite = 0, ""
		c.CancelAtNs = int64(simrt.Pick(r, 70, 70, 60)*int(time.Second)) + int64(200+r.Intn(4500))*int64(time.Millisecond) + 137
	}

	switch prop {
	case "C01":
		// bodies completing exactly on 100 ms multiples relative to start (setup sleep 0): ties with progress ticks
		c.Prog.SetupSleepNs = 0
		for i := range c.Prog.Iter {
			c.Prog.Iter[i].SleepNs = int64(simrt.Pick(r, 0, 100, 200, 500, 1000)) * int64(time.Millisecond)
			if c.C01LateCancel && r.Intn(2) == 0 {
				// still in flight when the first progress report after the interrupt is made
				c.Prog.Iter[i].SleepNs = int64(simrt.Pick(r, 1700, 2600, 4100))*int64(time.Millisecond) + 13
			}
			c.Prog.Iter[i].Cleanups = nil
		}
		if c.Mode == "constant" {
			c.Flags["rate"] = fmt.Sprintf("%d/%s", 1+r.Intn(6), simrt.Pick(r, "100ms", "200ms", "500ms", "1s"))
			c.Flags["distribution"] = simrt.Pick(r, "none", "regular")
			c.TickNs, c.TickRate = 0, 0
		}
	case "C04":
		if r.Intn(2) == 0 {
			// rendezvous profile: every tick requests >= 1, bodies wait for full overlap
			c.Prog.Rendezvous = c.Concurrency
			if c.Mode != "users" {
				c.Mode = "constant"
				iv := simrt.Pick(r, int64(10), 20, 50, 100)
				c.Flags = map[string]string{"rate": fmt.Sprintf("%d/%dms", 1+r.Intn(3), iv), "distribution": "none"}
			}
			c.MaxDurationNs = int64(simrt.Pick(r, 2000, 3000))*int64(time.Millisecond) + odd(r)
			c.Prog.RendezvousNs = c.MaxDurationNs / 2
			c.MaxIterations = 0
			c.CancelAtNs, c.CancelAtStep, c.CancelAtSite = 0, 0, ""
			c.Prog.SetupBehav = bPass
			for i := range c.Prog.Iter {
				c.Prog.Iter[i].Behav = bPass
			}
		}
	case "C03":
		if c.C03Overload {
			// overloaded constant rate with a limit: requests are dropped tick after tick, yet the trigger keeps
			// requesting, so the limit must still be reached
			iv := simrt.Pick(r, int64(10), 20, 50)
			c.Concurrency = 1 + r.Intn(3)
			rate := c.Concurrency + 1 + r.Intn(4)
			c.Mode, c.Flags = "constant", map[string]string{"rate": fmt.Sprintf("%d/%dms", rate, iv), "distribution": "none"}
			c.TickNs, c.TickRate = iv*ms, rate
			c.MaxIterations = uint64(simrt.Pick(r, 5, 9, 20))
			body := iv*ms*int64(1+r.Intn(3)) + 1009
			c.Prog.Iter = []IterPlan{{SleepNs: body}, {SleepNs: body + 2003}}
			c.Prog.SetupBehav, c.Prog.SetupSleepNs, c.Prog.SetupCleanups = bPass, 0, nil
			c.CancelAtNs, c.CancelAtStep, c.CancelAtSite = 0, 0, ""
			c.MaxDurationNs = int64(c.MaxIterations)*(body+3*ms+iv*ms)*2 + 50*ms + odd(r)
			c.WaitTimeoutNs = int64(time.Second) + odd(r)
		}
	case "C08":
		if r.Intn(4) == 0 { // zero-iteration runs
			switch r.Intn(3) {
			case 0:
				c.Mode, c.Flags = "constant", map[string]string{"rate": "0/100ms", "distribution": "none"}
			case 1:
				c.CancelAtNs = -1
			default:
				c.CancelAtNs = 1
			}
		}
		if r.Intn(4) == 0 { // drops: one slow worker, several requests per tick
			c.Concurrency = 1
			c.Mode, c.Flags = "constant", map[string]string{"rate": "3/50ms", "distribution": "none"}
			for i := range c.Prog.Iter {
				c.Prog.Iter[i].SleepNs = 70*int64(time.Millisecond) + 7
			}
		}
		if r.Intn(3) == 0 {
			// failed share exactly on (or one iteration off) the tolerated percentage, for many (rate, total) pairs
			total := simrt.Pick(r, 20, 25, 40, 50, 100, 200)
			var rates []int
			for p := 1; p < 100; p++ {
				if p*total%100 == 0 {
					rates = append(rates, p)
				}
			}
			rate := rates[r.Intn(len(rates))]
			fail := rate*total/100 + simrt.Pick(r, 0, 0, 0, 1, -1)
			fail = max(0, min(fail, total))
			c.MaxFailRate, c.MaxFailures = rate, 0
			c.Mode, c.Flags = "users", map[string]string{}
			c.Concurrency = 1 + r.Intn(4)
			c.MaxIterations = uint64(total)
			c.MaxDurationNs = int64(8*time.Second) + odd(r)
			c.WaitTimeoutNs = int64(2*time.Second) + odd(r)
			c.CancelAtNs, c.CancelAtStep, c.CancelAtSite = 0, 0, ""
			c.Prog.SetupBehav, c.Prog.SetupCleanups = bPass, nil
			c.Prog.Iter = nil
			for i := 0; i < total; i++ {
				p := IterPlan{SleepNs: 2*ms + int64(i%7)*1009}
				if i < fail {
					p.Behav = simrt.Pick(r, bFail, bError, bPanicErr)
				}
				c.Prog.Iter = append(c.Prog.Iter, p)
			}
		}
	case "C17":
		// measurement: distinct body and cleanup sleeps, forced queueing
		c.Concurrency = simrt.Pick(r, 1, 1, 2)
		c.Mode, c.Flags = "constant", map[string]string{"rate": fmt.Sprintf("%d/100ms", 1+r.Intn(3)), "distribution": "none"}
		c.Metrics = true
		for i := range c.Prog.Iter {
			c.Prog.Iter[i].SleepNs = int64(1+r.Intn(40))*int64(time.Millisecond) + int64(i+1)*1009
			c.Prog.Iter[i].Cleanups = []CleanupPlan{{SleepNs: int64(1+r.Intn(30))*int64(time.Millisecond) + int64(i+1)*2003}}
			c.Prog.Iter[i].CleanupsLate = false
		}
		if r.Intn(3) == 0 {
			c.MaxIterations = 1
		}
		if r.Intn(3) == 0 {
			// users: iterations follow one another on a worker without a pause, the cleanups of one sit right in front
			// of the next one's body
			c.Mode, c.Flags = "users", map[string]string{}
			c.TickNs, c.TickRate = 0, 0
			c.MaxIterations = uint64(2 + r.Intn(6))
		}
	case "C07":
		if r.Intn(8) == 0 {
			// a body leaves a helper goroutine behind that reports an error on the handle while the worker is idle
			// (one worker, one request per 100 ms tick, bodies of 10 ms, the helper fires 20 ms after its body): the
			// iteration that started it has passed, and the next one on that worker starts clean
			c.Mode, c.Flags = "constant", map[string]string{"rate": "1/100ms", "distribution": "none"}
			c.Concurrency, c.MaxIterations, c.Runs = 1, 0, 1
			c.CancelAtNs, c.CancelAtStep, c.CancelAtSite = 0, 0, ""
			c.MaxDurationNs = int64(2+r.Intn(6))*100*ms + 50*ms + 7
			c.Prog = ScenarioProg{Iter: []IterPlan{{SleepNs: 10*ms + 3, LateHelperNs: 20*ms + 11}, {SleepNs: 5*ms + 1}}}
			if r.Intn(2) == 0 {
				c.Prog.Iter = c.Prog.Iter[:1]
			}
			c.SlowOutputNs = 0
			c.LateHelper = true
		}
	case "C09", "C02":
		c.Mode = "constant"
		genTrigger(c, r, "constant", true)
		c.Flags["distribution"] = "none"
		delete(c.Flags, "jitter")
		iv := simrt.Pick(r, int64(10), 20, 50, 100, 200, 250, 500, 1000)
		rate := int64(r.Intn(9))
		c.Flags["rate"] = fmt.Sprintf("%d/%dms", rate, iv)
		c.TickNs, c.TickRate = iv*int64(time.Millisecond), int(rate)
		if r.Intn(5) == 0 {
			// an earlier run of the same process used other trigger options (jitter, another rate): this run is still exact
			c.Runs, c.SameScenario = 2, r.Intn(2) == 0
			c.Flags1 = map[string]string{"rate": fmt.Sprintf("%d/%dms", 1+r.Intn(5), iv), "distribution": simrt.Pick(r, "none", "regular"), "jitter": simrt.Pick(r, "50", "90", "10")}
		}
	}
	if c.Driver != "api" && prop == "C05" {
		c.WaitTimeoutNs = 10*int64(time.Second) + odd(r) // the command's own completion timeout
		c.Interactive = false
	}
	if c.Driver == "f1" {
		c.Runs = 1 // (an interrupt is delivered as SIGINT to whatever the entry point registered)
		if (prop == "C08" || prop == "C05") && r.Intn(3) == 0 {
			// one F1 instance executed twice, the second time without the limits of the first
			c.Runs, c.SameScenario, c.Run2Plain = 2, r.Intn(2) == 0, true
			c.SignalBetweenRuns = r.Intn(2) == 0
		}
		c.Verbose, c.Interactive = true, false
		if prop == "C16" {
			c.Metrics, c.StaticLabels = true, nil // the global instance was initialised with iteration metrics on, no static labels
			for i := range c.Prog.Iter {
				c.Prog.Iter[i].InTimeStage = i%2 == 0
				c.Prog.Iter[i].EmptyStage = i%4 == 0
			}
		}
	}
	if c.Mode == "users" {
		c.TickNs, c.TickRate = 0, 0
		// users mode loops as fast as bodies return; simulated time only advances when every task is
		// blocked, so every body must take some simulated time (and the iteration count stays bounded)
		floor := c.MaxDurationNs * int64(c.Concurrency) / 1500
		if floor < 2*int64(time.Millisecond) {
			floor = 2 * int64(time.Millisecond)
		}
		for i := range c.Prog.Iter {
			if c.Prog.Iter[i].SleepNs < floor {
				c.Prog.Iter[i].SleepNs = floor + int64(i+1)*1013 + c.Prog.Iter[i].SleepNs%1000003
			}
		}
	}
	if c.Prog.Rendezvous > 0 && c.Mode == "constant" {
		// enough requests inside the rendezvous timeout for every worker to get one (twice over)
		var rate, iv int64
		fmt.Sscanf(c.Flags["rate"], "%d/%dms", &rate, &iv)
		ticks := c.Prog.RendezvousNs / (iv * int64(time.Millisecond))
		need := (2*int64(c.Concurrency) + ticks - 1) / max(ticks, 1)
		if rate < need {
			rate = need
		}
		c.Flags["rate"] = fmt.Sprintf("%d/%dms", rate, iv)
	}
	if c.SlowOutputNs == 0 && (prop == "C05" || prop == "C19") && r.Intn(6) == 0 {
		c.SlowOutputNs = int64(simrt.Pick(r, 1, 20, 400))*int64(time.Millisecond) + 41
		if prop == "C05" && r.Intn(5) == 0 {
			c.SlowOutputNs = 1500*int64(time.Millisecond) + 41 // a terminal that blocks for longer than a progress period
		}
	}
	if prop == "C05" && c.Driver == "api" && r.Intn(12) == 0 {
		// the terminal goes away in the middle of an interactive run: printing fails from then on, the run still ends
		c.Interactive, c.Verbose = true, false
		c.OutputFailAtNs = r.Int63n(c.MaxDurationNs) + 1
	}
	if r.Intn(8) == 0 {
		c.StartOffsetNs = r.Int63n(int64(48 * time.Hour))
	}
	if c.Metrics && prop == "C16" && r.Intn(2) == 0 {
		// generated static-label maps: names that differ only by case, share prefixes, sort differently from their
		// values and from insertion order
		names := []string{"env", "Env", "ENV", "team", "Team", "a", "A", "b", "_x", "x_", "zone1", "zone10", "zone2", "app", "App"}
		used := map[string]bool{}
		for i, n := 0, 1+r.Intn(6); i < n; i++ {
			k := names[r.Intn(len(names))]
			if used[k] {
				continue
			}
			used[k] = true
			c.StaticLabels = append(c.StaticLabels, [2]string{k, fmt.Sprintf("v%d-%s", r.Intn(100), k)})
		}
	} else if c.Metrics && r.Intn(2) == 0 {
		c.StaticLabels = simrt.Pick(r, [][2]string{{"zeta", "1"}, {"alpha", "2"}}, [][2]string{{"b", "x"}, {"a", "y"}, {"c", "w"}},
			[][2]string{{"k1", "v1"}}, [][2]string{{"env", "zz"}, {"team", "aa"}, {"app", "mm"}, {"dc", "bb"}})
	}
	if c.Driver == "f1" {
		c.StaticLabels = nil // the process-wide instance carries no static labels
	}
	sc := genSimCfg(r, faults)
	sc.MaxSimNs += c.StartOffsetNs
	if c.LateHelper {
		sc.StallPermille = 0
	}
	if (prop == "C01" || prop == "C16") && c.Mode != "file" && len(c.Prog.Components) == 0 && r.Intn(10) == 0 {
		c.RacyHelper, c.Metrics = true, true
		for i := range c.Prog.Iter {
			if c.Prog.Iter[i].Behav == bPass && r.Intn(2) == 0 {
				c.Prog.Iter[i].RacyHelper = true
			}
		}
	}
	if c.Prog.Rendezvous > 0 && sc.StallMaxMs > 30 {
		sc.StallMaxMs = 30
	}
	if prop == "C17" || prop == "C09" || prop == "C02" {
		if r.Intn(2) == 0 {
			sc.StallPermille = 0
		}
	}
	if prop == "C01" && r.Intn(3) == 0 {
		// results recorded while the run shuts down: requests outnumber workers (drops), and whoever is
		// recording a result or a drop may be held up for a while
		if c.Mode == "constant" {
			c.Concurrency = 1 + r.Intn(2)
			c.Flags["rate"] = fmt.Sprintf("%d/%s", 3+r.Intn(6), simrt.Pick(r, "100ms", "200ms"))
			c.Flags["distribution"] = "none"
			c.TickNs, c.TickRate = 0, 0
		}
		sc.StallPermille, sc.StallMaxMs, sc.MaxStalls = simrt.Pick(r, 10, 30), simrt.Pick(r, 20, 300, 1500), 1+r.Intn(3)
		sc.StallSites = "RecordDroppedIteration|progress.Stats.Record|RecordIterationResult|TriggerPool.stop|sendJobsForExecution|ActiveScenario.Run"
	}
	return c, sc
}
