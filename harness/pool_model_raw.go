package verifharness

import "sort"

// The ideal c-server pool: the reference model of H2 (trigger pool) and of H5 (ticking loop with slow bodies).

type h2ModelOut struct {
	started  int
	dropped  uint64
	perTick  []uint64
	stopDrop uint64
	limitHit bool
}

// poolModel: conc servers; tick i at tickAt[i] replaces whatever is pending by sizes[i] requests (the
// replaced ones are dropped); a free server starts a pending request at once; the k-th started request
// takes bodyNs[k mod len]; at stopAt (>= 0) pending requests are dropped; when a server would start request
// number maxIter+1 everything pending is discarded silently and nothing starts any more.
func poolModel(conc int, maxIter uint64, sizes []int, bodyNs []int64, tickAt []int64, stopAt int64) h2ModelOut {
	var out h2ModelOut
	out.perTick = make([]uint64, len(tickAt))
	pending := 0
	var busy []int64 // completion instants
	idle := conc
	limited := false
	startOne := func(now int64) bool {
		if maxIter > 0 && uint64(out.started) >= maxIter {
			pending = 0
			limited = true
			out.limitHit = true
			return false
		}
		d := int64(0)
		if len(bodyNs) > 0 {
			d = bodyNs[out.started%len(bodyNs)]
		}
		out.started++
		pending--
		idle--
		busy = append(busy, now+d)
		return true
	}
	drain := func(now int64) {
		for pending > 0 && idle > 0 && !limited {
			if !startOne(now) {
				break
			}
		}
	}
	advance := func(until int64) {
		for {
			sort.Slice(busy, func(i, j int) bool { return busy[i] < busy[j] })
			if len(busy) == 0 || busy[0] > until || (stopAt >= 0 && busy[0] > stopAt) {
				return
			}
			t := busy[0]
			busy = busy[1:]
			idle++
			drain(t)
		}
	}
	for i, at := range tickAt {
		if stopAt >= 0 && at > stopAt {
			break
		}
		advance(at)
		if limited {
			break
		}
		if pending > 0 {
			out.perTick[i] = uint64(pending)
			out.dropped += uint64(pending)
		}
		pending = max(sizes[i], 0)
		drain(at)
	}
	if stopAt >= 0 {
		advance(stopAt)
	}
	if !limited && pending > 0 {
		out.stopDrop = uint64(pending)
		out.dropped += uint64(pending)
	}
	return out
}
