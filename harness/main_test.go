//go:debug asynctimerchan=0

package verifharness

import (
	"bufio"
	"encoding/json"
	"flag"
	"fmt"
	"os"
	"os/signal"
	"regexp"
	"runtime/debug"
	"strings"
	"syscall"
	"testing"
	"testing/synctest"
	"time"

	"github.com/form3tech-oss/f1/v2/internal/metrics"
	"github.com/form3tech-oss/f1/v2/internal/verifsim/simrt"
)

var (
	fProp     = flag.String("sim.prop", "", "property id to check")
	fTier     = flag.String("sim.tier", "quick", "quick|thorough")
	fSeed0    = flag.Uint64("sim.seed0", 1, "base seed (VERIF_SEED)")
	fWorker   = flag.Int("sim.worker", 0, "index of this worker process")
	fWorkers  = flag.Int("sim.workers", 1, "number of worker processes")
	fBudget   = flag.Float64("sim.budget", 10, "wall-clock budget in seconds")
	fMaxRuns  = flag.Int("sim.maxruns", 0, "stop after this many runs (0 = budget only)")
	fOut      = flag.String("sim.out", "", "output file (aggregate JSON / replay file)")
	fBegin    = flag.String("sim.begin", "", "file receiving a run-begin line before every run")
	fReplay   = flag.String("sim.replay", "", "replay file to execute")
	fShrink   = flag.String("sim.shrink", "", "replay file to minimise (result written to -sim.out)")
	fRunSeed  = flag.Uint64("sim.runseed", 0, "execute exactly this run seed and write a replay file to -sim.out")
	fRunIdx   = flag.Int64("sim.runidx", -1, "with -sim.runseed: the run index (selects the harness)")
	fRecheck  = flag.Int("sim.recheck", 50, "re-execute every n-th run and compare log hashes (0 = off)")
	fHarness  = flag.String("sim.harness", "", "restrict to this harness")
	fMaxViol  = flag.Int("sim.maxviol", 3, "stop after this many violations")
	fHashOnly = flag.Bool("sim.hashonly", false, "selftest mode: print 'seed hash' per run to -sim.out, no oracle accounting")
	fKnown    = flag.String("sim.known", "", "known findings of this property: class\tsig-regex entries separated by newlines; matching violations are recorded once and do not count towards -sim.maxviol")
	fStart    = flag.Int("sim.start", 0, "first run number of this worker (restart after a crash)")
	fShrinkS  = flag.Float64("sim.shrinkbudget", 45, "wall-clock budget for minimisation in seconds")
)

func init() {
	// T.Time records into the process-wide metrics instance, which f1's root command initialises
	metrics.Init(true)
	// the runtime's signal loop goroutine must not be born inside a synctest bubble (f1.ExecuteWithArgs calls
	// signal.Notify): start it here
	signal.Notify(make(chan os.Signal, 1), syscall.SIGUSR2)
}

func splitmix(x uint64) uint64 {
	x += 0x9e3779b97f4a7c15
	x = (x ^ (x >> 30)) * 0xbf58476d1ce4e5b9
	x = (x ^ (x >> 27)) * 0x94d049bb133111eb
	return x ^ (x >> 31)
}

func runSeedFor(base uint64, idx int64) uint64 {
	return splitmix(base*0x9e3779b97f4a7c15 + uint64(idx) + 1)
}

func harnessFor(prop string, idx int64) Harness {
	hs := propHarness[prop]
	if *fHarness != "" {
		return registry[*fHarness]
	}
	// (a component harness that does not compile against the tree under check is left out of the build: the
	// property is then judged by its remaining harnesses)
	var avail []string
	for _, n := range hs {
		if registry[n] != nil {
			avail = append(avail, n)
		}
	}
	if len(avail) == 0 {
		return nil
	}
	return registry[avail[int(idx)%len(avail)]]
}

// execute performs one simulated run.
func execute(t *testing.T, h Harness, prop, tier string, seed uint64, cfg any, simCfg simrt.Config,
	ch *simrt.Choices, wantTrace bool,
) (rec RunRecord) {
	t0 := time.Now()
	rec.Seed, rec.Harness, rec.Prop, rec.SimCfg = seed, h.Name(), prop, simCfg
	var env *Env
	var trace []string
	var sim *simrt.Sim
	func() {
		defer func() {
			if r := recover(); r != nil {
				msg := fmt.Sprint(r)
				if strings.Contains(msg, "deadlock: main bubble goroutine has exited") {
					return // goroutines blocked for ever remain; already listed in Stats.Leftover
				}
				rec.Panic = msg + "\n" + string(debug.Stack())
			}
		}()
		synctest.Test(t, func(t *testing.T) {
			pre := simrt.GoroutineIDs()
			sim = simrt.New(simCfg, ch)
			if wantTrace {
				sim.TraceOut = &trace
			}
			env = &Env{Sim: sim, Prop: prop, Tier: tier, PreIDs: pre, SimCfg: simCfg}
			defer func() {
				if r := recover(); r != nil {
					rec.Panic = fmt.Sprint(r) + "\n" + string(debug.Stack())
				}
				rec.Stats = sim.Finish(pre)
			}()
			h.Run(env, cfg)
		})
	}()
	if sim != nil {
		rec.Stats = sim.Stats()
		rec.LogHash = hashEvents(sim.Events(), rec.Stats.TraceHash)
	}
	rec.Choices, rec.Kinds = ch.Rec, ch.Kinds
	rec.Diverged = ch.Diverged
	rec.Trace = trace
	rec.WallUs = time.Since(t0).Microseconds()
	rec.Desc = h.Describe(cfg)
	switch {
	case rec.Panic != "":
		rec.Verdict = "harness-panic"
	case env == nil:
		rec.Verdict = "harness-panic"
		rec.Panic = "no env"
	default:
		rec.Cover = env.Cover
		for _, v := range env.Viol {
			if v.Prop == prop {
				rec.Viol = append(rec.Viol, v)
			}
		}
		switch {
		case len(rec.Viol) > 0:
			rec.Verdict = "violation"
		case rec.Stats.StepCapHit:
			rec.Verdict = "inconclusive"
		case env.Pre[prop]:
			rec.Verdict = "precond"
		default:
			rec.Verdict = "ok"
			rec.NonTriv = h.NonTrivial(prop, env, rec.Stats)
		}
	}
	if wantTrace && sim != nil {
		for _, e := range sim.Events() {
			rec.Events = append(rec.Events, e.String())
		}
	}
	return rec
}

type aggregate struct {
	Prop        string            `json:"prop"`
	Tier        string            `json:"tier"`
	Worker      int               `json:"worker"`
	Runs        int               `json:"runs"`
	OK          int               `json:"ok"`
	Precond     int               `json:"precond"`
	Inconcl     int               `json:"inconclusive"`
	Violations  int               `json:"violations"`
	KnownHits   int               `json:"known_hits"`
	TiesRuns    int               `json:"ties_profile_runs"`
	NonTrivial  int               `json:"nontrivial"`
	Steps       uint64            `json:"steps"`
	SimNs       int64             `json:"sim_ns"`
	Switches    uint64            `json:"switches"`
	Preempts    uint64            `json:"preempts"`
	Stalls      uint64            `json:"stalls"`
	SelShuffles uint64            `json:"select_shuffles"`
	RandDraws   uint64            `json:"rand_draws"`
	RandExt     uint64            `json:"rand_extremes"`
	FaultFree   int               `json:"fault_free_runs"`
	MultiNB     uint64            `json:"multi_newborn"`
	Probes      map[string]uint64 `json:"probes"`
	Cover       map[string]uint64 `json:"cover"`
	ByHarness   map[string]int    `json:"by_harness"`
	Rechecked   int               `json:"rechecked"`
	Nondet      []string          `json:"nondeterminism"`
	Errors      []string          `json:"errors"`
	Samples     []json.RawMessage `json:"samples"`
	WallS       float64           `json:"wall_s"`
	TraceHashes []string          `json:"trace_hashes"`
	NTHashes    []string          `json:"nontrivial_hashes"`
	ViolFiles   []string          `json:"violation_files"`
	FirstSeed   uint64            `json:"first_seed"`
	LastSeed    uint64            `json:"last_seed"`
	SitePairs   int               `json:"max_site_pairs"`
	NextRun     int               `json:"next_run"`
}

func writeJSON(path string, v any) error {
	b, err := json.MarshalIndent(v, "", " ")
	if err != nil {
		return err
	}
	return os.WriteFile(path, b, 0o644)
}

func mkReplay(rec RunRecord, cfg any) ReplayFile {
	raw, _ := json.Marshal(cfg)
	rf := ReplayFile{
		Property: rec.Prop, Harness: rec.Harness, Seed: rec.Seed, Cfg: raw, SimCfg: rec.SimCfg,
		NChoices: len(rec.Choices), Choices: sparse(rec.Choices), Kinds: string(rec.Kinds), LogHash: rec.LogHash,
	}
	if len(rec.Viol) > 0 {
		rf.Class, rf.Sig, rf.Detail = rec.Viol[0].Class, rec.Viol[0].Sig, rec.Viol[0].Detail
	}
	return rf
}

func TestSim(t *testing.T) {
	if *fProp == "" && *fReplay == "" && *fShrink == "" {
		t.Skip("no -sim.prop")
	}
	switch {
	case *fReplay != "":
		doReplay(t)
	case *fShrink != "":
		doShrink(t)
	case *fRunSeed != 0:
		doRunSeed(t)
	default:
		doSearch(t)
	}
}

func loadReplay(path string) (ReplayFile, Harness, any) {
	var rf ReplayFile
	b, err := os.ReadFile(path)
	if err != nil {
		fmt.Fprintln(os.Stderr, "replay:", err)
		os.Exit(2)
	}
	if err := json.Unmarshal(b, &rf); err != nil {
		fmt.Fprintln(os.Stderr, "replay:", err)
		os.Exit(2)
	}
	h := registry[rf.Harness]
	if h == nil {
		fmt.Fprintln(os.Stderr, "replay: unknown harness", rf.Harness)
		os.Exit(2)
	}
	cfg, err := h.Decode(rf.Cfg)
	if err != nil {
		fmt.Fprintln(os.Stderr, "replay: cfg:", err)
		os.Exit(2)
	}
	return rf, h, cfg
}

func doReplay(t *testing.T) {
	rf, h, cfg := loadReplay(*fReplay)
	vec := dense(rf.NChoices, rf.Choices)
	rec := execute(t, h, rf.Property, *fTier, rf.Seed, cfg, rf.SimCfg, simrt.NewReplay(vec, []byte(rf.Kinds)), true)
	out := map[string]any{
		"verdict": rec.Verdict, "violations": rec.Viol, "log_hash": rec.LogHash, "expected_log_hash": rf.LogHash,
		"expected_class": rf.Class, "diverged": rec.Diverged, "panic": rec.Panic, "stats": rec.Stats,
		"schedule": rec.Trace, "events": rec.Events,
	}
	if *fOut != "" {
		writeJSON(*fOut, out)
	} else {
		b, _ := json.MarshalIndent(out, "", " ")
		fmt.Println(string(b))
	}
}

func doRunSeed(t *testing.T) {
	idx := *fRunIdx
	h := harnessFor(*fProp, max(idx, 0))
	if h == nil {
		fmt.Fprintln(os.Stderr, "no harness for", *fProp)
		os.Exit(2)
	}
	seed := *fRunSeed
	r := simrt.NewRng(seed)
	cfg, simCfg := h.Gen(*fProp, *fTier, r)
	rec := execute(t, h, *fProp, *fTier, seed, cfg, simCfg, simrt.NewSearch(splitmix(seed^0xabcdef)), true)
	rf := mkReplay(rec, cfg)
	rf.Schedule, rf.Events = tail(rec.Trace, 400), tail(rec.Events, 400)
	if os.Getenv("VERIF_FULLTRACE") == "1" {
		rf.Schedule = rec.Trace
	}
	if rec.Panic != "" {
		rf.Class, rf.Detail = "harness-panic", rec.Panic
	}
	if *fOut != "" {
		writeJSON(*fOut, rf)
	}
	fmt.Printf("RUNSEED verdict=%s class=%s hash=%s\n", rec.Verdict, rf.Class, rec.LogHash)
}

// knownMatch returns the matching known-finding entry ("" if none) when every violation of the run matches one.
func knownMatch(vs []Violation) string {
	if *fKnown == "" || len(vs) == 0 {
		return ""
	}
	first := ""
	for _, v := range vs {
		hit := ""
		for _, ent := range strings.Split(*fKnown, "\n") {
			parts := strings.SplitN(ent, "\t", 2)
			if len(parts) != 2 || (parts[0] != "" && parts[0] != v.Class) {
				continue
			}
			if ok, _ := regexp.MatchString(parts[1], v.Sig); ok {
				hit = ent
				break
			}
		}
		if hit == "" {
			return ""
		}
		if first == "" {
			first = hit
		}
	}
	return first
}

func tail(xs []string, n int) []string {
	if len(xs) > n {
		return xs[len(xs)-n:]
	}
	return xs
}

// doShrink minimises the choice vector of a failing replay file by delta debugging: ranges of
// nonzero entries are reset to 0 (the default decision) and the tail is truncated while the same
// violation class persists.
func doShrink(t *testing.T) {
	rf, h, cfg := loadReplay(*fShrink)
	deadline := time.Now().Add(time.Duration(*fShrinkS * float64(time.Second)))
	vec := dense(rf.NChoices, rf.Choices)
	same := func(v []uint32) (bool, RunRecord) {
		rec := execute(t, h, rf.Property, *fTier, rf.Seed, cfg, rf.SimCfg, simrt.NewReplay(v, nil), false)
		if rec.Verdict != "violation" {
			return false, rec
		}
		for _, vi := range rec.Viol {
			if vi.Class == rf.Class {
				return true, rec
			}
		}
		return false, rec
	}
	ok, best := same(vec)
	if !ok {
		fmt.Printf("SHRINK not-reproduced verdict=%s\n", best.Verdict)
		if *fOut != "" {
			writeJSON(*fOut, rf)
		}
		return
	}
	tries := 0
	// 1. truncate: entries beyond the end are defaults
	for len(vec) > 0 && time.Now().Before(deadline) {
		cut := len(vec) / 2
		cand := append([]uint32(nil), vec[:cut]...)
		tries++
		if ok, rec := same(cand); ok {
			vec, best = cand, rec
		} else {
			break
		}
	}
	// 2. ddmin over the nonzero positions
	nz := func() []int {
		var p []int
		for i, v := range vec {
			if v != 0 {
				p = append(p, i)
			}
		}
		return p
	}
	gran := 2
	for time.Now().Before(deadline) {
		pos := nz()
		if len(pos) == 0 {
			break
		}
		if gran > len(pos) {
			gran = len(pos)
		}
		chunk := (len(pos) + gran - 1) / gran
		reduced := false
		for start := 0; start < len(pos) && time.Now().Before(deadline); start += chunk {
			end := min(start+chunk, len(pos))
			cand := append([]uint32(nil), vec...)
			for _, p := range pos[start:end] {
				cand[p] = 0
			}
			tries++
			if ok, rec := same(cand); ok {
				vec, best, reduced = cand, rec, true
				break
			}
		}
		if reduced {
			gran = max(gran-1, 2)
			continue
		}
		if chunk == 1 {
			break
		}
		gran = min(gran*2, len(pos))
	}
	// 3. configuration shrinking (generic, on the JSON form of the configuration): drop array elements, move
	// numbers towards 0, clear flags - keeping a candidate only when the same violation class recurs with the
	// current choice vector (entries beyond its end are defaults, so any configuration is executable)
	if *fOut != "" {
		inter := mkReplay(best, cfg)
		inter.NChoices, inter.Choices, inter.Kinds = len(vec), sparse(vec), ""
		inter.TreeHash = rf.TreeHash
		writeJSON(*fOut, inter) // a crash while trying odd configurations must not lose the result so far
	}
	rawCfg, _ := json.Marshal(cfg)
	cfgTries := 0
	tryCfg := func(raw json.RawMessage) bool {
		c2, err := h.Decode(raw)
		if err != nil {
			return false
		}
		cfgTries++
		rec := execute(t, h, rf.Property, *fTier, rf.Seed, c2, rf.SimCfg, simrt.NewReplay(vec, nil), false)
		if rec.Verdict != "violation" {
			return false
		}
		for _, vi := range rec.Viol {
			if vi.Class == rf.Class {
				best = rec
				return true
			}
		}
		return false
	}
	if shrunk := shrinkJSON(rawCfg, tryCfg, deadline); len(shrunk) > 0 {
		if c2, err := h.Decode(shrunk); err == nil {
			cfg = c2
		}
	}
	// trim trailing zeros
	for len(vec) > 0 && vec[len(vec)-1] == 0 {
		vec = vec[:len(vec)-1]
	}
	final := execute(t, h, rf.Property, *fTier, rf.Seed, cfg, rf.SimCfg, simrt.NewReplay(vec, nil), true)
	if final.Verdict != "violation" {
		fmt.Printf("SHRINK lost-after-trim\n")
		vec = best.Choices
		final = execute(t, h, rf.Property, *fTier, rf.Seed, cfg, rf.SimCfg, simrt.NewReplay(vec, nil), true)
	}
	out := mkReplay(final, cfg)
	// keep exactly the vector we replayed (recorded vector may be longer: defaults beyond the end)
	out.NChoices, out.Choices, out.Kinds = len(final.Choices), sparse(final.Choices), string(final.Kinds)
	out.TreeHash = rf.TreeHash
	out.Minimised = true
	out.Schedule, out.Events = tail(final.Trace, 400), tail(final.Events, 400)
	if out.Class == "" {
		out.Class, out.Sig, out.Detail = rf.Class, rf.Sig, rf.Detail
	}
	nzc := 0
	for _, v := range final.Choices {
		if v != 0 {
			nzc++
		}
	}
	fmt.Printf("SHRINK ok tries=%d cfg_tries=%d choices=%d nonzero=%d steps=%d\n", tries, cfgTries, len(final.Choices), nzc, final.Stats.Steps)
	if *fOut != "" {
		writeJSON(*fOut, out)
	}
}

func doSearch(t *testing.T) {
	prop, tier := *fProp, *fTier
	agg := aggregate{Prop: prop, Tier: tier, Worker: *fWorker, Probes: map[string]uint64{}, Cover: map[string]uint64{}, ByHarness: map[string]int{}}
	start := time.Now()
	deadline := start.Add(time.Duration(*fBudget * float64(time.Second)))
	var begin *os.File
	if *fBegin != "" {
		begin, _ = os.OpenFile(*fBegin, os.O_CREATE|os.O_WRONLY|os.O_TRUNC, 0o644)
		defer begin.Close()
	}
	var hashOut *bufio.Writer
	if *fHashOnly && *fOut != "" {
		f, err := os.Create(*fOut)
		if err != nil {
			t.Fatal(err)
		}
		defer f.Close()
		hashOut = bufio.NewWriter(f)
		defer hashOut.Flush()
	}
	traceSet := map[string]struct{}{}
	knownSeen := map[string]bool{}
	ntSet := map[string]struct{}{}
	flush := func() {
		agg.WallS = time.Since(start).Seconds()
		agg.TraceHashes, agg.NTHashes = agg.TraceHashes[:0], agg.NTHashes[:0]
		for k := range traceSet {
			agg.TraceHashes = append(agg.TraceHashes, k)
		}
		for k := range ntSet {
			agg.NTHashes = append(agg.NTHashes, k)
		}
		if *fOut != "" && !*fHashOnly {
			tmp := *fOut + ".tmp"
			if err := writeJSON(tmp, agg); err == nil {
				os.Rename(tmp, *fOut)
			}
		}
	}
	lastFlush := time.Now()
	for i := *fStart; ; i++ {
		if time.Since(lastFlush) > 2*time.Second {
			flush() // a later process crash must not lose what was explored so far
			lastFlush = time.Now()
		}
		agg.NextRun = i + 1
		if *fMaxRuns > 0 && i >= *fMaxRuns {
			break
		}
		if *fMaxRuns == 0 && !time.Now().Before(deadline) {
			break
		}
		if agg.Violations >= *fMaxViol {
			break
		}
		idx := int64(*fWorker) + int64(i)*int64(*fWorkers)
		h := harnessFor(prop, idx)
		if h == nil {
			agg.Errors = append(agg.Errors, "no harness for "+prop)
			break
		}
		seed := runSeedFor(*fSeed0, idx)
		if begin != nil {
			fmt.Fprintf(begin, "B %d %d %s\n", seed, idx, h.Name())
		}
		cfg, simCfg := h.Gen(prop, tier, simrt.NewRng(seed))
		rec := execute(t, h, prop, tier, seed, cfg, simCfg, simrt.NewSearch(splitmix(seed^0xabcdef)), false)
		if i == 0 {
			agg.FirstSeed = seed
		}
		agg.LastSeed = seed
		agg.Runs++
		agg.ByHarness[h.Name()]++
		if hashOut != nil {
			lh := rec.LogHash
			if th, ok := h.(interface{ Ties(cfg any) bool }); ok && th.Ties(cfg) {
				// configurations whose event log depends on something outside the simulator's control (same-instant timers
				// of f1's one-minute schedule switch, a report made from inside a loop over a Go map) are not compared
				lh = "not-compared"
			}
			fmt.Fprintf(hashOut, "%d %s %s %d\n", seed, lh, rec.Verdict, rec.Stats.Steps)
		}
		st := rec.Stats
		agg.Steps += st.Steps
		agg.SimNs += st.SimNs
		agg.Switches += st.Switches
		agg.Preempts += st.Preempts
		agg.Stalls += st.Stalls
		agg.SelShuffles += st.SelectShuffle
		agg.RandDraws += st.RandDraws
		agg.RandExt += st.RandExtremes
		agg.MultiNB += st.MultiNewborn
		if st.SitePairs > agg.SitePairs {
			agg.SitePairs = st.SitePairs
		}
		if st.Stalls == 0 && st.Preempts == 0 && st.SelectShuffle == 0 && st.RandExtremes == 0 {
			agg.FaultFree++
		}
		for k, v := range st.Probes {
			agg.Probes[k] += v
		}
		for k, v := range rec.Cover {
			agg.Cover[k] += v
		}
		traceSet[fmt.Sprintf("%x", st.TraceHash)] = struct{}{}
		switch rec.Verdict {
		case "ok":
			agg.OK++
			if rec.NonTriv {
				agg.NonTrivial++
				ntSet[rec.LogHash] = struct{}{}
			}
		case "precond":
			agg.Precond++
		case "inconclusive":
			agg.Inconcl++
		case "harness-panic":
			agg.Errors = append(agg.Errors, fmt.Sprintf("seed %d: %s", seed, rec.Panic))
		case "violation":
			if kn := knownMatch(rec.Viol); kn != "" {
				agg.KnownHits++
				if knownSeen[kn] {
					break
				}
				knownSeen[kn] = true
			} else {
				agg.Violations++
			}
			rf := mkReplay(rec, cfg)
			rf.Proc = &ProcInfo{Seed0: *fSeed0, Worker: *fWorker, Workers: *fWorkers, Start: *fStart, RunNo: i, Recheck: *fRecheck}
			path := fmt.Sprintf("%s.viol.%d.json", strings.TrimSuffix(*fOut, ".json"), seed)
			if err := writeJSON(path, rf); err == nil {
				agg.ViolFiles = append(agg.ViolFiles, path)
			}
		}
		if len(agg.Samples) < 3 && (rec.Verdict == "ok" && rec.NonTriv) {
			raw, _ := json.Marshal(cfg)
			s, _ := json.Marshal(map[string]any{
				"seed": seed, "harness": h.Name(), "cfg": json.RawMessage(raw), "sim_cfg": simCfg,
				"steps": st.Steps, "sim_time": time.Duration(st.SimNs).String(), "tasks": st.Tasks,
				"preempts": st.Preempts, "stalls": st.Stalls, "log_hash": rec.LogHash, "cover": rec.Cover,
			})
			agg.Samples = append(agg.Samples, s)
		}
		if len(agg.Errors) > 5 {
			break
		}
		// determinism re-check: same seed again must give the same log hash
		ties := false
		if th, ok := h.(interface{ Ties(cfg any) bool }); ok {
			ties = th.Ties(cfg)
		}
		if ties {
			agg.TiesRuns++
		}
		if *fRecheck > 0 && i%*fRecheck == *fRecheck-1 && rec.Verdict != "harness-panic" && !ties {
			cfg2, simCfg2 := h.Gen(prop, tier, simrt.NewRng(seed))
			rec2 := execute(t, h, prop, tier, seed, cfg2, simCfg2, simrt.NewSearch(splitmix(seed^0xabcdef)), false)
			agg.Rechecked++
			if rec2.LogHash != rec.LogHash || rec2.Verdict != rec.Verdict {
				agg.Nondet = append(agg.Nondet, fmt.Sprintf("seed %d harness %s: %s/%s vs %s/%s", seed, h.Name(), rec.LogHash, rec.Verdict, rec2.LogHash, rec2.Verdict))
			}
		}
	}
	flush()
}

// ---- generic JSON shrinking ------------------------------------------------------------------------------

type jsonPath []any // string keys and int indices

func jsonGet(root any, p jsonPath) any {
	cur := root
	for _, k := range p {
		switch kk := k.(type) {
		case string:
			cur = cur.(map[string]any)[kk]
		case int:
			cur = cur.([]any)[kk]
		}
	}
	return cur
}

func jsonSet(root any, p jsonPath, v any) any {
	if len(p) == 0 {
		return v
	}
	switch kk := p[0].(type) {
	case string:
		m := root.(map[string]any)
		m[kk] = jsonSet(m[kk], p[1:], v)
		return m
	case int:
		a := root.([]any)
		a[kk] = jsonSet(a[kk], p[1:], v)
		return a
	}
	return root
}

func jsonWalk(v any, p jsonPath, visit func(jsonPath, any)) {
	visit(p, v)
	switch x := v.(type) {
	case map[string]any:
		for _, k := range sortedKeys(x) {
			jsonWalk(x[k], append(append(jsonPath{}, p...), k), visit)
		}
	case []any:
		for i := range x {
			jsonWalk(x[i], append(append(jsonPath{}, p...), i), visit)
		}
	}
}

func jsonClone(v any) any {
	b, _ := json.Marshal(v)
	return jsonParse(b)
}

func jsonParse(b []byte) any {
	dec := json.NewDecoder(strings.NewReader(string(b)))
	dec.UseNumber()
	var v any
	if err := dec.Decode(&v); err != nil {
		return nil
	}
	return v
}

// shrinkJSON greedily simplifies a JSON document while ok() keeps holding.
// shrinkSkip: parts of a configuration that are expectations computed by the generator (what an input spells, the
// plan a config file must produce, expected tick sizes) or that must stay consistent with them; shrinking those
// would turn a real violation into a mismatch between a configuration and its own expectation.
func shrinkSkip(root any, p jsonPath) bool {
	fileMode := false
	if m, ok := root.(map[string]any); ok {
		if y, ok := m["file_yaml"].(string); ok && y != "" {
			fileMode = true
		}
		if _, ok := m["input"].(map[string]any); ok {
			fileMode = true
		}
	}
	for i, k := range p {
		ks, _ := k.(string)
		switch ks {
		case "input", "file", "tick", "tick_rate", "trig_dur", "read_env", "static_labels":
			return true
		}
		if i == 0 && fileMode {
			switch ks {
			case "prog", "cancel_at", "cancel_step", "wait_timeout", "runs":
			default:
				return true
			}
		}
	}
	return false
}

func shrinkJSON(raw json.RawMessage, ok func(json.RawMessage) bool, deadline time.Time) json.RawMessage {
	cur := jsonParse(raw)
	if cur == nil {
		return nil
	}
	attempt := func(cand any) bool {
		b, err := json.Marshal(cand)
		if err != nil || !time.Now().Before(deadline) {
			return false
		}
		if ok(b) {
			cur = cand
			return true
		}
		return false
	}
	for round := 0; round < 4 && time.Now().Before(deadline); round++ {
		changed := false
		// arrays: drop halves, then single elements (at least one element stays)
		var arrays []jsonPath
		jsonWalk(cur, nil, func(p jsonPath, v any) {
			if a, isArr := v.([]any); isArr && len(a) > 1 && !shrinkSkip(cur, p) {
				arrays = append(arrays, p)
			}
		})
		for _, p := range arrays {
			for {
				a, isArr := jsonGet(cur, p).([]any)
				if !isArr || len(a) <= 1 || !time.Now().Before(deadline) {
					break
				}
				half := len(a) / 2
				c1 := jsonSet(jsonClone(cur), p, jsonClone(a[:len(a)-half]))
				if attempt(c1) {
					changed = true
					continue
				}
				c2 := jsonSet(jsonClone(cur), p, jsonClone(a[half:]))
				if attempt(c2) {
					changed = true
					continue
				}
				if len(a) <= 6 {
					removed := false
					for i := 0; i < len(a) && len(a) > 1; i++ {
						rest := append(append([]any{}, a[:i]...), a[i+1:]...)
						if attempt(jsonSet(jsonClone(cur), p, jsonClone(rest))) {
							changed, removed = true, true
							break
						}
					}
					if removed {
						continue
					}
				}
				break
			}
		}
		// numbers towards zero, flags off
		var leaves []jsonPath
		jsonWalk(cur, nil, func(p jsonPath, v any) {
			switch v.(type) {
			case json.Number, bool:
				if !shrinkSkip(cur, p) {
					leaves = append(leaves, p)
				}
			}
		})
		for _, p := range leaves {
			if !time.Now().Before(deadline) {
				break
			}
			switch x := jsonGet(cur, p).(type) {
			case bool:
				if x && attempt(jsonSet(jsonClone(cur), p, false)) {
					changed = true
				}
			case json.Number:
				if f, err := x.Float64(); err == nil && f != 0 {
					if attempt(jsonSet(jsonClone(cur), p, json.Number("0"))) {
						changed = true
					} else if i, err := x.Int64(); err == nil && (i >= 2 || i <= -2) {
						if attempt(jsonSet(jsonClone(cur), p, json.Number(fmt.Sprint(i/2)))) {
							changed = true
						}
					}
				}
			}
		}
		if !changed {
			break
		}
	}
	b, _ := json.Marshal(cur)
	return b
}
