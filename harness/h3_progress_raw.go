//go:build !noh3

package verifharness

import (
	"encoding/json"
	"fmt"
	"time"

	"github.com/form3tech-oss/f1/v2/internal/progress"
	"github.com/form3tech-oss/f1/v2/internal/verifsim/simrt"
)

type H3Rec struct {
	Result int   `json:"r"` // 0 success, 1 fail, 2 dropped
	Ns     int64 `json:"ns"`
	GapNs  int64 `json:"gap,omitempty"`
}

type H3Op struct {
	Kind   int   `json:"k"` // 0 record, 1 snapshot, 2 total
	Result int   `json:"r,omitempty"`
	Ns     int64 `json:"ns,omitempty"`
}

type H3Cfg struct {
	Recorders [][]H3Rec `json:"recorders,omitempty"`
	SnapGaps  []int64   `json:"snap_gaps,omitempty"`
	SeqOps    []H3Op    `json:"seq_ops,omitempty"`
}

type h3Obs struct {
	doneAtStart [3]uint64
	begunAtEnd  [3]uint64
	snap        progress.Snapshot
}

type h3Shared struct {
	begun, done [3]uint64
	obs         []h3Obs
	final       progress.Snapshot
	finished    bool
	model       h3Model
}

func h3name(p string, i int) string { return fmt.Sprintf("%s%d", p, i) }

// h3Model is the reference for sequential aggregation: plain lists of durations per outcome.
type h3Model struct {
	life   [2][]int64
	period [2][]int64
	drop   uint64
	last   [2]uint64
}

func (m *h3Model) record(result int, ns int64) {
	if result == 2 {
		m.drop++
		return
	}
	m.life[result] = append(m.life[result], ns)
	m.period[result] = append(m.period[result], ns)
}

func figures(xs []int64) progress.IterationDurationsSnapshot {
	var s progress.IterationDurationsSnapshot
	if len(xs) == 0 {
		return s
	}
	var sum int64
	mn, mx := xs[0], xs[0]
	for _, x := range xs {
		sum += x
		if x < mn {
			mn = x
		}
		if x > mx {
			mx = x
		}
	}
	s.Count = uint64(len(xs))
	s.Average = time.Duration(sum / int64(len(xs)))
	s.Min, s.Max = time.Duration(mn), time.Duration(mx)
	return s
}

func (m *h3Model) check(env *Env, i int, op string, got progress.Snapshot, hasPeriod bool) {
	wantS, wantF := figures(m.life[0]), figures(m.life[1])
	if got.SuccessfulIterationDurations != wantS {
		env.Violate("C17", "aggregation-lifetime-success", "h3seq/"+op, "op %d %s: lifetime success figures %+v, reference %+v", i, op, got.SuccessfulIterationDurations, wantS)
	}
	if got.FailedIterationDurations != wantF {
		env.Violate("C17", "aggregation-lifetime-failed", "h3seq/"+op, "op %d %s: lifetime failed figures %+v, reference %+v", i, op, got.FailedIterationDurations, wantF)
	}
	if got.DroppedIterationCount != m.drop {
		env.Violate("C17", "aggregation-dropped", "h3seq/"+op, "op %d %s: dropped %d, reference %d", i, op, got.DroppedIterationCount, m.drop)
	}
	if hasPeriod {
		wantP := figures(m.period[0])
		if got.SuccessfulIterationDurationsForPeriod != wantP {
			env.Violate("C17", "aggregation-period", "h3seq/"+op, "op %d %s: period figures %+v, reference %+v", i, op, got.SuccessfulIterationDurationsForPeriod, wantP)
		}
	}
	for k, f := range []progress.IterationDurationsSnapshot{got.SuccessfulIterationDurations, got.FailedIterationDurations} {
		if f.Count < m.last[k] {
			env.Violate("C17", "lifetime-count-decreased", "h3seq/"+op, "op %d %s: lifetime count %d after %d", i, op, f.Count, m.last[k])
		}
		m.last[k] = f.Count
		if f.Count > 0 && !(f.Min <= f.Average && f.Average <= f.Max) {
			env.Violate("C17", "min-mean-max-order", "h3seq/"+op, "op %d %s: min %v mean %v max %v", i, op, f.Min, f.Average, f.Max)
		}
	}
	m.period[0], m.period[1] = nil, nil
	env.Hit("h3seq.checked_ops")
}

type h3 struct{}

func init() {
	register(h3{})
}

func (h3) Name() string    { return "H3" }
func (h3) Props() []string { return []string{"C01", "C17"} }

func (h3) Decode(raw json.RawMessage) (any, error) {
	var c H3Cfg
	err := json.Unmarshal(raw, &c)
	return &c, err
}

func (h3) Describe(cfg any) string {
	c := cfg.(*H3Cfg)
	if len(c.SeqOps) > 0 {
		return fmt.Sprintf("H3 seq ops=%d", len(c.SeqOps))
	}
	n := 0
	for _, r := range c.Recorders {
		n += len(r)
	}
	return fmt.Sprintf("H3 recorders=%d records=%d snapshots=%d", len(c.Recorders), n, len(c.SnapGaps))
}

func genDurNs(r *simrt.Rng) int64 {
	switch r.Intn(7) {
	case 0:
		return 1
	case 6: // months: sums beyond 2^53 ns, where arithmetic in float64 is no longer exact
		return int64(time.Hour)*24*int64(30+r.Intn(60)) + int64(1+r.Intn(7))
	case 1:
		return int64(1 + r.Intn(1000))
	case 2:
		return int64(time.Millisecond) * int64(1+r.Intn(500))
	case 3:
		return int64(time.Second) * int64(1+r.Intn(100))
	case 4:
		return int64(1+r.Intn(1<<30)) * int64(1+r.Intn(1<<20))
	default:
		return int64(time.Microsecond) * int64(1+r.Intn(100000))
	}
}

func (h3) Gen(prop, tier string, r *simrt.Rng) (any, simrt.Config) {
	c := &H3Cfg{}
	sc := simrt.Config{Strategy: simrt.Pick(r, "sticky", "sticky", "rw", "pct", "delay"), SwitchProb: simrt.Pick(r, 0.02, 0.1, 0.3), PCTDepth: 1 + r.Intn(3), PCTSteps: 400, DelayMod: 3 + r.Intn(5)}
	if prop == "C17" {
		sc.Strategy = "rr"
		n := 1 + r.Intn(60)
		if tier == "thorough" {
			n = 1 + r.Intn(300)
		}
		for i := 0; i < n; i++ {
			switch k := r.Intn(10); {
			case k < 7:
				c.SeqOps = append(c.SeqOps, H3Op{Kind: 0, Result: simrt.Pick(r, 0, 0, 0, 1, 1, 2), Ns: genDurNs(r)})
			case k < 9:
				// the reporting period handed to Snapshot is the caller's business (1 s, 10 s, 30 s, 1 min in f1, and back
				// to 1 s after a restart): the figures do not depend on it
				c.SeqOps = append(c.SeqOps, H3Op{Kind: 1, Ns: int64(simrt.Pick(r, 1, 1, 1, 10, 30, 60)) * int64(time.Second)})
			default:
				c.SeqOps = append(c.SeqOps, H3Op{Kind: 2})
			}
		}
		c.SeqOps = append(c.SeqOps, H3Op{Kind: 2})
		return c, sc
	}
	nrec := 1 + r.Intn(4)
	maxRecs := 12
	if tier == "thorough" {
		nrec = 1 + r.Intn(6)
		maxRecs = 40
	}
	timed := r.Intn(3) == 0
	for i := 0; i < nrec; i++ {
		var script []H3Rec
		for j, n := 0, 1+r.Intn(maxRecs); j < n; j++ {
			rec := H3Rec{Result: simrt.Pick(r, 0, 0, 0, 1, 1, 2), Ns: genDurNs(r)}
			if timed {
				rec.GapNs = int64(r.Intn(5)) * 1000
			}
			script = append(script, rec)
		}
		c.Recorders = append(c.Recorders, script)
	}
	for j, n := 0, r.Intn(8); j < n; j++ {
		g := int64(0)
		if timed {
			g = int64(r.Intn(12)) * 1000
		}
		c.SnapGaps = append(c.SnapGaps, g)
	}
	return c, sc
}

func (h3) NonTrivial(prop string, env *Env, st simrt.Stats) bool {
	if prop == "C17" {
		return env.Cover["h3seq.checked_ops"] >= 2
	}
	// a concurrent history is non-trivial when a snapshot overlapped with recording
	return env.Cover["h3.snapshot_overlapped_record"] > 0
}

func (h h3) Run(env *Env, cfg any) {
	c := cfg.(*H3Cfg)
	sh := &h3Shared{}
	if len(c.SeqOps) > 0 {
		env.Sim.GoMain("main", func() { h3Sequential(env, c, sh) })
		env.Sim.Run()
		if !sh.finished {
			env.PrecondNotMet("C17")
		}
		return
	}
	env.Sim.GoMain("main", func() { h3Main(env, c, sh) })
	env.Sim.Run()
	if !sh.finished {
		env.PrecondNotMet("C01")
		return
	}
	var want [3]uint64
	for _, s := range c.Recorders {
		for _, rec := range s {
			want[rec.Result]++
		}
	}
	got := [3]uint64{sh.final.SuccessfulIterationDurations.Count, sh.final.FailedIterationDurations.Count, sh.final.DroppedIterationCount}
	names := [3]string{"successful", "failed", "dropped"}
	for k := 0; k < 3; k++ {
		if got[k] != want[k] {
			cls := "lost-count"
			if got[k] > want[k] {
				cls = "extra-count"
			}
			env.Violate("C01", cls, "progress.Stats/"+names[k], "final %s count %d, but %d %s records were made (recorders=%d snapshots=%d)", names[k], got[k], want[k], names[k], len(c.Recorders), len(c.SnapGaps))
		}
	}
	var prev [3]uint64
	for i, o := range sh.obs {
		cur := [3]uint64{o.snap.SuccessfulIterationDurations.Count, o.snap.FailedIterationDurations.Count, o.snap.DroppedIterationCount}
		for k := 0; k < 3; k++ {
			if cur[k] < prev[k] {
				env.Violate("C01", "snapshot-count-decreased", "progress.Stats/"+names[k], "snapshot %d: lifetime %s count %d after %d", i, names[k], cur[k], prev[k])
			}
			if cur[k] > o.begunAtEnd[k] {
				env.Violate("C01", "snapshot-count-ahead", "progress.Stats/"+names[k], "snapshot %d: lifetime %s count %d but only %d records begun", i, names[k], cur[k], o.begunAtEnd[k])
			}
			if cur[k] < o.doneAtStart[k] {
				env.Violate("C01", "lost-count", "progress.Stats/"+names[k], "snapshot %d: lifetime %s count %d but %d records had completed before it began", i, names[k], cur[k], o.doneAtStart[k])
			}
			if o.begunAtEnd[k] != o.doneAtStart[k] {
				env.Hit("h3.snapshot_overlapped_record")
			}
		}
		prev = cur
	}
}
