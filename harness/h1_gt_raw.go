package verifharness

import (
	"os"

	f1t "github.com/form3tech-oss/f1/v2/pkg/f1/testing"
)

// Ground truth recorded by the generated scenario program of one run.

type cleanupRun struct {
	Idx int
	Seq uint64
	T   int64
}

type bodyRec struct {
	Idx           int
	Iter          string
	Handle        int
	FailedAtEntry bool
	Plan          IterPlan
	BeginNs       int64
	EndNs         int64
	BeginSeq      uint64
	EndSeq        uint64
	Ended         bool
	ElapsedNs     int64
	Registered    []int // cleanup indices in registration order
	CleanupRuns   []cleanupRun
	InflightAtIn  int
	RdvOK         bool
	RdvTimedOut   bool
	PlannedFail   bool
	// combined scenarios: which components ran, in order
	CompRan []int
	Env     map[string]string // environment read at entry (file mode)
}

type compEvent struct {
	Kind   string // setup | iter
	Comp   int
	Handle int
	Iter   string
	Seq    uint64
	Inv    int // the component's own invocation counter at this call
}

type runGT struct {
	Scenario       string
	SetupCalls     int
	SetupBeginNs   int64
	SetupEndNs     int64
	SetupBeginSeq  uint64
	SetupEndSeq    uint64
	SetupEnded     bool
	SetupHandle    int
	SetupPlanFail  bool
	SetupRegs      []int
	SetupCleanRuns []cleanupRun
	Bodies         []*bodyRec
	handles        map[*f1t.T]int
	live           map[*f1t.T]*bodyRec
	Inflight       int
	HWM            int
	DoubleHandle   []string
	CompEvents     []compEvent
	compInv        []int
	rdvCount       int
	rdvCh          chan struct{}
	rdvDone        bool
	RdvReached     bool
	// run-level
	DoCalledNs             int64
	DoCalledSeq            uint64
	DoReturnedNs           int64
	DoReturnedSeq          uint64
	DoReturned             bool
	DoErr                  string
	DoPanic                string
	CancelNs               int64
	CancelSeq              uint64
	Cancelled              bool
	TrigErr                string
	NewRunErr              string
	LeftoverAfter          []string
	LateProgress           int
	BodiesBegunAfterReturn int
	EnvAfter               map[string]string // stage parameters still set after Do returned
}

func (g *runGT) handleOf(t *f1t.T) int {
	if g.handles == nil {
		g.handles = map[*f1t.T]int{}
	}
	if h, ok := g.handles[t]; ok {
		return h
	}
	h := len(g.handles)
	g.handles[t] = h
	return h
}

type plannedPanic struct{ Marker string }

// begin/end do the per-iteration ground-truth bookkeeping atomically (no scheduling points here).
func (rt *scenRT) begin(t *f1t.T) *bodyRec {
	g := rt.g
	rec := &bodyRec{Idx: len(g.Bodies), Iter: t.Iteration, Handle: g.handleOf(t), FailedAtEntry: t.Failed()}
	rec.Plan = rt.cfg.plan(rec.Idx)
	rec.PlannedFail = behavFails(rec.Plan.Behav) && len(rt.cfg.Prog.Components) == 0
	g.Bodies = append(g.Bodies, rec)
	if g.live == nil {
		g.live = map[*f1t.T]*bodyRec{}
	}
	if other := g.live[t]; other != nil {
		g.DoubleHandle = append(g.DoubleHandle, "handle entered twice without exit: iterations "+other.Iter+" and "+rec.Iter)
	}
	g.live[t] = rec
	g.Inflight++
	rec.InflightAtIn = g.Inflight
	if g.Inflight > g.HWM {
		g.HWM = g.Inflight
	}
	if g.DoReturned {
		g.BodiesBegunAfterReturn++
	}
	if len(rt.cfg.ReadEnv) > 0 {
		rec.Env = map[string]string{}
		for _, k := range rt.cfg.ReadEnv {
			if v, ok := os.LookupEnv(k); ok {
				rec.Env[k] = v
			}
		}
	}
	rec.BeginNs, rec.BeginSeq = rt.env.Sim.Now(), rt.env.Sim.Step()
	rt.env.Log("body-begin", int64(rec.Idx), int64(rec.Handle), rec.Iter)
	return rec
}

func (rt *scenRT) end(t *f1t.T, rec *bodyRec, elapsed int64) {
	g := rt.g
	rec.ElapsedNs = elapsed
	rec.Ended = true
	rec.EndNs, rec.EndSeq = rt.env.Sim.Now(), rt.env.Sim.Step()
	g.Inflight--
	if g.live[t] == rec {
		delete(g.live, t)
	}
	rt.env.Log("body-end", int64(rec.Idx), int64(rec.Handle), rec.Iter)
}

func envStillSet(names []string) map[string]string {
	out := map[string]string{}
	for _, k := range names {
		if v, ok := os.LookupEnv(k); ok {
			out[k] = v
			os.Unsetenv(k) // do not let one run's leak disturb the next run in this process
		}
	}
	return out
}
