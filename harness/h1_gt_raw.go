package verifharness

import (
	f1t "github.com/form3tech-oss/f1/v2/pkg/f1/testing"
)

// Ground truth recorded by the generated scenario program of one run.

type cleanupRun struct {
	Idx int
	Seq uint64
	T   int64
}

type bodyRec struct {
	Idx           int
	Iter          string
	Handle        int
	FailedAtEntry bool
	Plan          IterPlan
	BeginNs       int64
	EndNs         int64
	BeginSeq      uint64
	EndSeq        uint64
	Ended         bool
	ElapsedNs     int64
	Registered    []int // cleanup indices in registration order
	CleanupRuns   []cleanupRun
	InflightAtIn  int
	RdvOK         bool
	RdvTimedOut   bool
	PlannedFail   bool
	// combined scenarios: which components ran, in order
	CompRan []int
}

type compEvent struct {
	Kind   string // setup | iter
	Comp   int
	Handle int
	Iter   string
	Seq    uint64
	Inv    int // the component's own invocation counter at this call
}

type runGT struct {
	Scenario       string
	SetupCalls     int
	SetupBeginNs   int64
	SetupEndNs     int64
	SetupBeginSeq  uint64
	SetupEndSeq    uint64
	SetupEnded     bool
	SetupHandle    int
	SetupPlanFail  bool
	SetupRegs      []int
	SetupCleanRuns []cleanupRun
	Bodies         []*bodyRec
	handles        map[*f1t.T]int
	live           map[*f1t.T]*bodyRec
	Inflight       int
	HWM            int
	DoubleHandle   []string
	CompEvents     []compEvent
	compInv        []int
	rdvCount       int
	rdvCh          chan struct{}
	rdvDone        bool
	RdvReached     bool
	// run-level
	DoCalledNs     int64
	DoCalledSeq    uint64
	DoReturnedNs   int64
	DoReturnedSeq  uint64
	DoReturned     bool
	DoErr          string
	DoPanic        string
	CancelNs       int64
	CancelSeq      uint64
	Cancelled      bool
	TrigErr        string
	NewRunErr      string
	LeftoverAfter  []string
	LateProgress   int
	BodiesBegunAfterReturn int
}

func (g *runGT) handleOf(t *f1t.T) int {
	if g.handles == nil {
		g.handles = map[*f1t.T]int{}
	}
	if h, ok := g.handles[t]; ok {
		return h
	}
	h := len(g.handles)
	g.handles[t] = h
	return h
}

type plannedPanic struct{ Marker string }
