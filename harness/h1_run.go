package verifharness

import (
	"context"
	"fmt"
	"github.com/form3tech-oss/f1/v2/internal/verifsim/simsignal"
	"io"
	"log/slog"
	"os"
	"runtime/debug"
	"sort"
	"time"

	"github.com/prometheus/client_golang/prometheus"
	"github.com/spf13/pflag"

	"github.com/form3tech-oss/f1/v2/internal/envsettings"
	"github.com/form3tech-oss/f1/v2/internal/metrics"
	"github.com/form3tech-oss/f1/v2/internal/options"
	"github.com/form3tech-oss/f1/v2/internal/run"
	"github.com/form3tech-oss/f1/v2/internal/trigger"
	"github.com/form3tech-oss/f1/v2/internal/trigger/api"
	"github.com/form3tech-oss/f1/v2/internal/ui"
	"github.com/form3tech-oss/f1/v2/pkg/f1"
	"github.com/form3tech-oss/f1/v2/pkg/f1/scenarios"
	f1t "github.com/form3tech-oss/f1/v2/pkg/f1/testing"
)

// h1Run is everything one simulated whole-run produced (per consecutive run of the configuration).
type h1Run struct {
	GT     *runGT
	Rec    *Recorder
	Result *run.Result
	// values read from the result after Do returned
	HaveResult bool
	HaveCounts bool // counts taken from the structured summary record (drivers without a result object)
	Snap       struct{ Succ, Fail, Drop uint64 }
	SnapFull   any
	Failed     bool
	ErrStr     string
	CliErr     string
	TrigDurNs  int64
	TrigDesc   string
	TrigOpts   api.Options
	HaveTrig   bool
	RunIdx     int
	DryProbed  int   // C14: the accepted trigger's rate function probed after the run
	DryMin     int   // smallest value it returned
	DryMinAtNs int64 // … at this offset from the end of the run
	Gathered   []metricSeries
	GatherErr  string
}

type h1State struct {
	Runs     []*h1Run
	Metrics  *metrics.Metrics
	Finished bool
	YAMLPath string
	// one process: the scenario registry and the combined scenario value live as long as the process and are
	// used by every run in it; cur is the run that is executing
	scens    *scenarios.Scenarios
	cur      *scenRT
	combined f1t.ScenarioFn
	f1       *f1.F1
	f1Added  map[string]bool
	curRec   *Recorder
}

func sortedFlagArgs(flags map[string]string) []string {
	keys := make([]string, 0, len(flags))
	for k := range flags {
		keys = append(keys, k)
	}
	sort.Strings(keys)
	var args []string
	for _, k := range keys {
		args = append(args, "--"+k+"="+flags[k])
	}
	return args
}

func builderFor(builders []api.Builder, mode string) *api.Builder {
	for i := range builders {
		if len(builders[i].Name) >= len(mode) && builders[i].Name[:len(mode)] == mode {
			return &builders[i]
		}
	}
	return nil
}

func h1Main(env *Env, c *H1Cfg, st *h1State) {
	if c.StartOffsetNs > 0 {
		time.Sleep(time.Duration(c.StartOffsetNs))
	}
	labels := map[string]string{}
	for _, kv := range c.StaticLabels {
		labels[kv[0]] = kv[1]
	}
	st.Metrics = metrics.NewInstance(prometheus.NewRegistry(), c.Metrics, labels)
	nruns := c.Runs
	if nruns < 1 {
		nruns = 1
	}
	simsignal.ClearAll()
	for i := 0; i < nruns; i++ {
		h1OneRun(env, c, st, i)
		if c.SignalBetweenRuns && i+1 < nruns {
			// a signal while no run is active: nobody is interrupted by it, now or later
			// (some time after the run: a second signal racing the end of an interrupted run legitimately exits the process)
			time.Sleep(50 * time.Millisecond)
			simsignal.Deliver(os.Interrupt, 1<<30)
			env.Hit("fault.signal_between_runs")
		}
	}
	st.Finished = true
}

func h1OneRun(env *Env, c *H1Cfg, st *h1State, runIdx int) {
	c = c.forRun(runIdx)
	g := &runGT{Scenario: fmt.Sprintf("scen%d", runIdx), compInv: make([]int, len(c.Prog.Components))}
	if c.SameScenario {
		g.Scenario = "scen0"
	}
	rec := NewRecorder(env.Sim)
	rec.SlowNs = c.SlowOutputNs
	if c.OutputFailAtNs > 0 {
		rec.FailAtNs = env.Sim.Now() + c.OutputFailAtNs
		env.Hit("fault.terminal_write_errors_armed")
	}
	hr := &h1Run{GT: g, Rec: rec, RunIdx: runIdx}
	st.Runs = append(st.Runs, hr)
	rt := &scenRT{env: env, cfg: c, g: g, st: st}
	st.cur = rt
	st.curRec = rec

	out := ui.NewOutput(slog.New(rec.Handler()), ui.NewPrinter(recWriter{r: rec}, recWriter{r: rec, err: true}), c.Interactive, true)
	if st.scens == nil {
		st.scens = scenarios.New()
	}
	scens := st.scens
	if scens.GetScenario(g.Scenario) == nil {
		scens.Add(&scenarios.Scenario{Name: g.Scenario, ScenarioFn: func(t *f1t.T) f1t.RunFn { return st.cur.scenarioFn(t) }})
	}
	settings := envsettings.Settings{Log: envsettings.Log{FilePath: os.DevNull}}

	ctx, cancel := context.WithCancel(context.Background())
	doCancel := func() { atomicCancel(env, &g.Cancelled, &g.CancelNs, &g.CancelSeq, cancel) }
	if c.Driver == "f1" {
		// the public entry point listens for SIGINT / SIGTERM itself: the interrupt is a signal
		sigGen := simsignal.Gen()
		doCancel = func() {
			// one signal per run (a second one makes f1 exit the process, by design), and none from a hook that fires
			// after its run is over
			if !g.DoReturned && !g.Cancelled {
				signalCancel(env, sigGen, &g.Cancelled, &g.CancelNs, &g.CancelSeq)
			}
		}
	}
	if runIdx == 0 {
		switch {
		case c.CancelAtNs < 0:
			doCancel()
		case c.CancelAtNs > 0:
			d := time.Duration(c.CancelAtNs)
			env.Sim.Go("canceller", func() {
				time.Sleep(d)
				doCancel()
			})
		}
		if c.CancelAtStep > 0 {
			env.Sim.AtStep(c.CancelAtStep, doCancel)
		}
		if c.CancelAtSite != "" {
			env.Sim.AtSite(c.CancelAtSite, max(c.CancelSiteNth, 1), c.CancelSitePlus, func() { env.Hit("fault.cancel_at_site"); doCancel() })
		}
	}

	builders := trigger.GetBuilders(out)
	opts := options.RunOptions{
		Scenario:        g.Scenario,
		MaxDuration:     time.Duration(c.MaxDurationNs),
		Concurrency:     c.Concurrency,
		MaxIterations:   c.MaxIterations,
		MaxFailures:     c.MaxFailures,
		MaxFailuresRate: c.MaxFailRate,
		Verbose:         c.Verbose,
		IgnoreDropped:   c.IgnoreDropped,
	}
	common := []string{
		"--max-duration=" + time.Duration(c.MaxDurationNs).String(),
		fmt.Sprintf("--concurrency=%d", c.Concurrency),
		fmt.Sprintf("--verbose=%v", c.Verbose),
	}
	// a limit at its default is not mentioned on the command line
	if c.MaxIterations != 0 {
		common = append(common, fmt.Sprintf("--max-iterations=%d", c.MaxIterations))
	}
	if c.MaxFailures != 0 {
		common = append(common, fmt.Sprintf("--max-failures=%d", c.MaxFailures))
	}
	if c.MaxFailRate != 0 {
		common = append(common, fmt.Sprintf("--max-failures-rate=%d", c.MaxFailRate))
	}
	if c.IgnoreDropped {
		common = append(common, "--ignore-dropped=true")
	}

	var probe api.RateFunction
	g.DoCalledNs, g.DoCalledSeq = env.Sim.Now(), env.Sim.Step()
	env.Log("do-call", int64(runIdx), 0, c.Mode)
	if c.Driver == "f1" {
		// the public entry point: f1.New().Add(...).ExecuteWithArgs(args) (root command, profiling flags,
		// signal context; no signal is ever delivered inside the simulation)
		// (one F1 instance per simulated process, executed once per run)
		if st.f1 == nil {
			st.f1 = f1.New().WithLogger(slog.New(curHandler{st: st}))
			st.f1Added = map[string]bool{}
		}
		f := st.f1
		if !st.f1Added[g.Scenario] {
			st.f1Added[g.Scenario] = true
			f.Add(g.Scenario, func(t *f1t.T) f1t.RunFn { return st.cur.scenarioFn(t) })
		}
		args := append([]string{"run", c.Mode, g.Scenario}, sortedFlagArgs(c.Flags)...)
		args = append(args, common...)
		if c.MemProfile {
			args = append(args, "--memprofile", os.DevNull)
		}
		func() {
			defer func() {
				if r := recover(); r != nil {
					g.DoPanic = fmt.Sprint(r) + "\n" + string(debug.Stack())
				}
			}()
			if err := f.ExecuteWithArgs(args); err != nil {
				hr.CliErr = err.Error()
			}
		}()
	} else if c.Driver == "cli" {
		cmd := run.Cmd(scens, builders, settings, st.Metrics, out)
		args := []string{c.Mode}
		if c.Mode == "file" {
			args = append(args, st.YAMLPath, fmt.Sprintf("--verbose=%v", c.Verbose))
		} else {
			args = append(args, g.Scenario)
			args = append(args, sortedFlagArgs(c.Flags)...)
			args = append(args, common...)
		}
		cmd.SetArgs(args)
		cmd.SetOut(io.Discard)
		cmd.SetErr(io.Discard)
		func() {
			defer func() {
				if r := recover(); r != nil {
					g.DoPanic = fmt.Sprint(r) + "\n" + string(debug.Stack())
				}
			}()
			if err := cmd.ExecuteContext(ctx); err != nil {
				hr.CliErr = err.Error()
			}
		}()
	} else {
		var trig *api.Trigger
		func() {
			defer func() {
				if r := recover(); r != nil {
					g.DoPanic = "trigger construction: " + fmt.Sprint(r) + "\n" + string(debug.Stack())
				}
			}()
			b := builderFor(builders, c.Mode)
			if b == nil {
				g.TrigErr = "no builder for mode " + c.Mode
				return
			}
			fs := pflag.NewFlagSet("h1", pflag.ContinueOnError)
			fs.AddFlagSet(b.Flags)
			if fs.Lookup("max-duration") == nil {
				fs.Duration("max-duration", time.Second, "")
			}
			var args []string
			if c.Mode == "file" {
				args = []string{st.YAMLPath}
			} else {
				args = append(sortedFlagArgs(c.Flags), "--max-duration="+time.Duration(c.MaxDurationNs).String())
			}
			if err := fs.Parse(args); err != nil {
				g.TrigErr = "flags: " + err.Error()
				return
			}
			t, err := b.New(fs)
			if err != nil {
				g.TrigErr = err.Error()
				return
			}
			trig = t
		}()
		if trig != nil {
			hr.TrigDurNs = int64(trig.Duration)
			hr.TrigDesc, hr.TrigOpts, hr.HaveTrig = trig.Description, trig.Options, true
			if c.Mode == "file" {
				opts.Scenario = g.Scenario
				opts.MaxDuration = trig.Options.MaxDuration
				opts.Concurrency = trig.Options.Concurrency
				opts.MaxIterations = trig.Options.MaxIterations
				opts.MaxFailures = trig.Options.MaxFailures
				opts.MaxFailuresRate = trig.Options.MaxFailuresRate
				opts.IgnoreDropped = trig.Options.IgnoreDropped
			}
			func() {
				defer func() {
					if r := recover(); r != nil {
						g.DoPanic = fmt.Sprint(r) + "\n" + string(debug.Stack())
					}
				}()
				r, err := run.NewRun(opts, scens, trig, time.Duration(c.WaitTimeoutNs), settings, st.Metrics, out)
				if err != nil {
					g.NewRunErr = err.Error()
					return
				}
				res, err := r.Do(ctx)
				if err != nil {
					g.DoErr = err.Error()
				}
				hr.Result = res
				probe = trig.DryRun
			}()
		}
	}
	g.DoReturned = true
	g.DoReturnedNs, g.DoReturnedSeq = env.Sim.Now(), env.Sim.Step()
	env.Log("do-return", int64(runIdx), 0, "")
	if len(c.ReadEnv) > 0 {
		g.EnvAfter = envStillSet(c.ReadEnv)
	}
	if c.Input != nil && probe != nil && g.DoPanic == "" && c.Mode != "file" && c.Mode != "users" {
		// C14: a usable rate function never asks for a negative amount of work, whenever it is asked
		func() {
			defer func() {
				if r := recover(); r != nil {
					g.DoPanic = "rate function: " + fmt.Sprint(r) + "\n" + string(debug.Stack())
				}
			}()
			base := time.Now()
			// (non-decreasing instants: stateful rate functions are defined for those)
			short := 2 * time.Duration(max(c.MaxDurationNs, int64(time.Second)))
			for _, span := range []time.Duration{short, 24 * time.Hour} {
				for i := 0; i <= 48; i++ {
					off := time.Duration(i) * span / 48
					if span != short && off <= short {
						continue
					}
					v := probe(base.Add(off))
					if hr.DryProbed == 0 || v < hr.DryMin {
						hr.DryMin, hr.DryMinAtNs = v, int64(off)
					}
					hr.DryProbed++
				}
			}
		}()
	}
	if hr.Result != nil && g.DoPanic == "" {
		func() {
			defer func() {
				if r := recover(); r != nil {
					g.DoPanic = "reading result: " + fmt.Sprint(r) + "\n" + string(debug.Stack())
				}
			}()
			s := hr.Result.Snapshot()
			hr.Snap.Succ, hr.Snap.Fail, hr.Snap.Drop = s.SuccessfulIterationDurations.Count, s.FailedIterationDurations.Count, s.DroppedIterationCount
			hr.SnapFull = s
			hr.Failed = hr.Result.Failed()
			if e := hr.Result.Error(); e != nil {
				hr.ErrStr = e.Error()
			}
			hr.HaveResult = true
		}()
	}
	if !hr.HaveResult && c.Driver != "api" && g.DoPanic == "" {
		if sc, ok := summaryCounts(rec); ok {
			hr.Snap.Succ, hr.Snap.Fail, hr.Snap.Drop, hr.HaveCounts = sc[1], sc[2], sc[3], true
		}
	}
	hr.Gathered, hr.GatherErr = gather(st.Metrics)
	if c.Driver == "f1" {
		// the public entry point runs on the process-wide metrics instance (reset at the start of every run)
		hr.Gathered, hr.GatherErr = gather(metrics.Instance())
	}
	// drain: let whatever is still running show itself (late progress lines, late iterations)
	rec.markSeq = g.DoReturnedSeq
	nLogs := 0
	drain := 2500 * time.Millisecond
	if c.MaxDurationNs > int64(time.Minute) {
		drain = 21 * time.Second
	}
	// injected stalls may hold a finishing goroutine for up to their budget: wait that out before judging leaks
	drain += time.Duration(env.SimCfg.MaxStalls) * time.Duration(env.SimCfg.StallMaxMs+1) * time.Millisecond
	env.Sim.Quiesce() // "nothing of the run remains" is judged after faults have stopped
	time.Sleep(drain)
	g.LateProgress = countProgress(rec, nLogs)
	g.LeftoverAfter = leftoverF1(env.PreIDs)
	cancel()
}
