package verifharness

import (
	"fmt"
	"strconv"
	"strings"
	"time"

	"github.com/form3tech-oss/f1/v2/internal/verifsim/simrt"
)

func (h h6) Run(env *Env, cfg any) {
	c := cfg.(*H1Cfg)
	st := h1RunCore(env, c)
	if st == nil {
		return
	}
	stats := env.Sim.Stats()
	for i, hr := range st.Runs {
		h1Oracles(env, c.forRun(i), st, hr, i, stats)
		if c.Input != nil && i == len(st.Runs)-1 && i == max(c.Runs, 1)-1 {
			// (the input under judgement is the last run's; an earlier run of the process may have used other options)
			h6Input(env, c.forRun(i), hr, stats)
		}
		if c.File != nil && (c.Input == nil || c.Input.WellFormed) {
			h6File(env, c, hr, i, stats)
		}
	}
}

// h6Input: C14 — the input was rejected with an error before setup, or what it produced ran.
func h6Input(env *Env, c *H1Cfg, hr *h1Run, stats simrt.Stats) {
	g := hr.GT
	in := c.Input
	if g.DoPanic != "" {
		return // reported by h1Oracles under C14
	}
	rejected := g.TrigErr != "" || g.NewRunErr != "" || (c.Driver == "cli" && hr.CliErr != "" && g.SetupCalls == 0)
	if rejected {
		if g.SetupCalls != 0 || len(g.Bodies) != 0 {
			env.Violate("C14", "rejected-after-setup", "input/"+in.Kind, "input %q was rejected (%s%s%s) after setup had run", in.Input, g.TrigErr, g.NewRunErr, hr.CliErr)
		}
		env.Hit("h6.input_rejected")
		if in.WellFormed {
			env.Hit("h6.wellformed_rejected")
		}
		return
	}
	// accepted: it ran
	if in.NoWorkers {
		env.Violate("C14", "accepted-without-workers", "input/"+in.Kind+"/concurrency", "input with a concurrency below 1 was accepted and run (%s): %d iterations", in.Input, len(g.Bodies))
		return
	}
	if g.SetupCalls != 1 {
		env.Violate("C14", "accepted-but-not-run", "input/"+in.Kind, "input %q was accepted but setup ran %d times", in.Input, g.SetupCalls)
		return
	}
	env.Hit("h6.input_accepted_and_run")
	if hr.DryProbed > 0 {
		if hr.DryMin < 0 {
			env.Violate("C14", "accepted-input-requests-negative-work", "input/"+in.Kind+"/"+c.Mode, "input %q was accepted, but its rate function asks for %d iterations %s after the run", in.Input, hr.DryMin, dur(hr.DryMinAtNs))
			return
		}
		env.Hit("h6.rate_function_probed")
	}
	if in.Kind == "peakrate" && in.SpelledIvNs > 0 && !g.Cancelled && stats.Stalls == 0 && hr.HaveResult {
		// around the peak (within 4 s of it, standard deviation 150 min) every one-second tick requests the peak rate
		perTick := float64(in.SpelledN) * float64(time.Second) / float64(in.SpelledIvNs)
		ticks := float64(1 + (c.MaxDurationNs-10*ms)/int64(time.Second))
		got := float64(hr.Snap.Succ + hr.Snap.Fail + hr.Snap.Drop)
		want := perTick * ticks
		if got < 0.95*want-ticks || got > 1.02*want+ticks {
			env.Violate("C14", "rate-means-something-else", "input/peakrate/"+rateShape(in.Input), "peak rate %q spells %d per %s = %.1f per one-second tick: %v ticks around the peak should request about %.0f iterations, %.0f were started or dropped",
				in.Input, in.SpelledN, dur(in.SpelledIvNs), perTick, ticks, want, got)
		}
		env.Hit("h6.peak_rate_meaning_checked")
	}
	if in.Spelled && in.SpelledIvNs > 0 && c.Mode == "constant" && !g.Cancelled && stats.Stalls == 0 {
		var started, dropped uint64
		have := false
		if hr.HaveResult {
			started, dropped, have = hr.Snap.Succ+hr.Snap.Fail, hr.Snap.Drop, true
		} else if s, ok := summaryCounts(hr.Rec); ok {
			started, dropped, have = s[1]+s[2], s[3], true
		}
		limit := c.MaxDurationNs - 10*ms
		if have && limit > 0 && limit%in.SpelledIvNs != 0 {
			ticks := uint64(1 + limit/in.SpelledIvNs)
			want := ticks * uint64(in.SpelledN)
			if started+dropped != want {
				env.Violate("C14", "rate-means-something-else", "input/rate/"+rateShape(in.Input), "rate %q spells %d per %s: in %s that is %d ticks = %d iterations, but %d were started and %d dropped",
					in.Input, in.SpelledN, dur(in.SpelledIvNs), dur(limit), ticks, want, started, dropped)
			}
			env.Hit("h6.rate_meaning_checked")
		}
	}
}

// rateShape abstracts a rate string to its lexical shape (digits -> 9) for known-finding signatures.
func rateShape(s string) string {
	var b strings.Builder
	lastDigit := false
	for _, r := range s {
		if r >= '0' && r <= '9' {
			if !lastDigit {
				b.WriteRune('9')
			}
			lastDigit = true
			continue
		}
		lastDigit = false
		b.WriteRune(r)
	}
	return b.String()
}

// h6File: C15 — plan (kept stages, duration, limits) and run-time stage order / environment.
func h6File(env *Env, c *H1Cfg, hr *h1Run, runIdx int, stats simrt.Stats) {
	g := hr.GT
	fe := c.File
	if g.DoPanic != "" || g.TrigErr != "" || g.NewRunErr != "" || (!hr.HaveTrig && c.Driver == "api") {
		env.PrecondNotMet("C15")
		return
	}
	if c.Driver != "api" && g.SetupCalls == 0 {
		env.PrecondNotMet("C15") // rejected on the command line
		return
	}
	now := g.DoCalledNs
	var kept []int
	var cum int64
	for j, s := range fe.Stages {
		cum += s.DurNs
		if !fe.HasStageStart || fe.StageStartNs+cum > now {
			kept = append(kept, j)
		}
	}
	// ---- limits honoured by the run (both drivers): verdict from the limits section and the run's own counts
	if hr.HaveResult || hr.HaveCounts {
		succ, fail, drop := hr.Snap.Succ, hr.Snap.Fail, hr.Snap.Drop
		total := succ + fail + drop
		var tol bool
		if fe.MaxFailures == 0 && fe.MaxFailRate == 0 {
			tol = fail > 0
		} else {
			tol = (fe.MaxFailures > 0 && fail > fe.MaxFailures) || (fe.MaxFailRate > 0 && total > 0 && fail*100 > uint64(fe.MaxFailRate)*total)
		}
		want := (!fe.IgnoreDropped && drop > 0) || tol
		got := hr.Failed
		if c.Driver != "api" {
			got = hr.CliErr != ""
		}
		if got != want && hr.ErrStr == "" {
			env.Violate("C15", "limits-not-honoured", "file/limits/"+c.Driver, "run failed=%v; the limits section (ignore-dropped=%v max-failures=%d max-failures-rate=%d) with successful=%d failed=%d dropped=%d gives %v (%s)",
				got, fe.IgnoreDropped, fe.MaxFailures, fe.MaxFailRate, succ, fail, drop, want, hr.CliErr)
		}
		if fe.MaxIterations > 0 && uint64(len(g.Bodies)) > fe.MaxIterations {
			env.Violate("C15", "limits-not-honoured", "file/limits/max-iterations", "%d iterations ran, the limits section says max-iterations %d", len(g.Bodies), fe.MaxIterations)
		}
		env.Hit("h6.limits_checked")
		if drop > 0 {
			env.Hit("h6.limits_checked_with_drops")
		}
	}
	if hr.HaveTrig {
		h6FilePlan(env, c, hr, runIdx, kept, now)
	}
	h6FileRuntime(env, c, hr, stats, kept)
}

func h6FilePlan(env *Env, c *H1Cfg, hr *h1Run, runIdx int, kept []int, now int64) {
	fe := c.File
	if hr.TrigDurNs != fe.TotalNs {
		env.Violate("C15", "plan-total-duration", "file/plan", "trigger duration %s, the stages sum to %s", dur(hr.TrigDurNs), dur(fe.TotalNs))
	}
	o := hr.TrigOpts
	if int64(o.MaxDuration) != fe.MaxDurationNs || o.Concurrency != fe.Concurrency || o.MaxIterations != fe.MaxIterations ||
		o.MaxFailures != fe.MaxFailures || o.MaxFailuresRate != fe.MaxFailRate || o.IgnoreDropped != fe.IgnoreDropped || o.Scenario != "scen0" {
		env.Violate("C15", "plan-limits", "file/plan", "run options %+v do not mirror the limits section %+v", o, *fe)
	}
	var planned int
	if _, err := fmt.Sscanf(hr.TrigDesc, "%d different stages", &planned); err == nil && planned != len(kept) {
		env.Violate("C15", "plan-kept-stages", "file/plan", "plan keeps %d stages; with stage-start %s, now %s and cumulative ends %s exactly %d are unfinished (run %d)",
			planned, dur(fe.StageStartNs), dur(now), cumEnds(fe), len(kept), runIdx)
	}
	env.Hit("h6.plan_checked")
	if len(kept) < len(fe.Stages) {
		env.Hit("h6.plan_skipped_stages")
	}
	if runIdx > 0 {
		env.Hit("h6.restart_checked")
	}
}

func h6FileRuntime(env *Env, c *H1Cfg, hr *h1Run, stats simrt.Stats, kept []int) {
	g, fe := hr.GT, c.File
	for _, k := range sortedKeys(g.EnvAfter) {
		v := g.EnvAfter[k]
		env.Violate("C15", "parameter-left-in-environment", "file/env", "after the run returned %s=%q is still set in the environment", k, v)
		break
	}
	idOrder := map[string][]int{} // a stage may occur twice (twin stages share their id)
	for pos, j := range kept {
		idOrder[fe.Stages[j].ID] = append(idOrder[fe.Stages[j].ID], pos)
	}
	last := -1
	for _, b := range g.Bodies {
		id, ok := b.Env["F1V_STAGE_ID"]
		if !ok {
			continue
		}
		poss, known := idOrder[id]
		if !known {
			env.Violate("C15", "finished-stage-ran", "file/order", "iteration %s ran with F1V_STAGE_ID=%q, which is not one of the unfinished stages %v", b.Iter, id, keptIDs(fe, kept))
			return
		}
		pos := -1
		for _, p := range poss {
			if p >= last {
				pos = p
				break
			}
		}
		if pos < 0 {
			env.Violate("C15", "stage-order", "file/order", "iteration %s saw stage %q after a later stage had already been seen", b.Iter, id)
			return
		}
		last = pos
	}
	if stats.Stalls != 0 || c.SlowOutputNs != 0 {
		return
	}
	// exact windows
	start := g.SetupEndNs
	stop := start + fe.MaxDurationNs - 10*ms
	if fe.TotalNs < fe.MaxDurationNs && fe.TotalNs-10*ms < stop-start {
		stop = start + fe.TotalNs - 10*ms
	}
	if g.Cancelled && g.CancelNs < stop {
		stop = g.CancelNs
	}
	s0 := start
	twinBegun := map[string]int{}
	for _, j := range kept {
		st := fe.Stages[j]
		w0, w1 := s0, s0+st.DurNs-20*ms
		s0 += st.DurNs
		if w0 >= stop {
			break
		}
		handles := map[int]bool{}
		begun := 0
		for _, b := range g.Bodies {
			// (a body that begins at the very instant its stage starts is judged too when nothing of an earlier stage
			// can still be pending: short bodies, enough workers)
			atStart := b.BeginNs == w0 && !fe.SlowBodies && fe.Concurrency >= 8
			if (b.BeginNs <= w0 && !atStart) || b.BeginNs >= w1 || b.BeginNs >= stop {
				if b.BeginNs == w0 {
					begun++
				}
				continue
			}
			begun++
			handles[b.Handle] = true
			for _, name := range fe.ParamNames {
				want, has := st.Params[name]
				got, set := b.Env[name]
				if has != set || want != got {
					env.Violate("C15", "stage-parameters", "file/env", "iteration %s began at %s inside stage %s (window %s..%s): environment %s=%q(set=%v), the stage defines %q(defined=%v)",
						b.Iter, dur(b.BeginNs), st.ID, dur(w0), dur(w1), name, got, set, want, has)
					return
				}
			}
			env.Hit("h6.stage_env_checked")
		}
		whole := w1 <= stop && fe.MaxIterations == 0 && !fe.SlowBodies
		// (enough workers for the largest per-tick request of the generated stages, so that no start is pushed across
		// the end of an occurrence's window by a busy pool)
		if whole && st.Def != "" && hr.Snap.Drop == 0 && fe.Concurrency >= 8 && (hr.HaveResult || hr.HaveCounts) {
			if prevBegun, seen := twinBegun[st.Def]; seen && prevBegun != begun {
				env.Violate("C15", "twin-stages-differ", "file/twin/"+st.Mode, "stage %s (%s for %s) is defined twice in the file: its first occurrence started %d iterations, this one %d",
					st.ID, st.Mode, dur(st.DurNs), prevBegun, begun)
				return
			} else if seen {
				env.Hit("h6.twin_stages_checked")
			}
			twinBegun[st.Def] = begun
		}
		if whole && st.Mode == "constant" && st.TickNs > 0 && (st.DurNs-20*ms)%st.TickNs != 0 && st.TickRate <= fe.Concurrency {
			want := st.TickRate * int(1+(st.DurNs-20*ms)/st.TickNs)
			if begun != want {
				env.Violate("C15", "stage-behaviour", "file/defaults", "stage %s (constant %d every %s for %s, fields possibly taken from the default section) started %d iterations, expected %d",
					st.ID, st.TickRate, dur(st.TickNs), dur(st.DurNs), begun, want)
				return
			}
			env.Hit("h6.stage_rate_checked")
		}
		if st.Mode == "users" && st.UsersConc > 0 && len(handles) > st.UsersConc {
			// (an upper bound that holds whatever the iterations do: a users stage has its own users, those of an earlier
			// users stage start nothing once their stage is over, however long their last iteration takes)
			env.Violate("C15", "stage-behaviour", "file/users-of-an-earlier-stage", "inside users stage %s (concurrency %d) iterations began on %d different workers", st.ID, st.UsersConc, len(handles))
			return
		}
		if whole && st.Mode == "users" && st.UsersConc > 0 && st.DurNs > 60*ms {
			if len(handles) != st.UsersConc && st.UsersConc <= fe.Concurrency*100 {
				env.Violate("C15", "stage-behaviour", "file/defaults", "users stage %s ran with %d concurrent users, the configuration (stage or default section) says %d", st.ID, len(handles), st.UsersConc)
				return
			}
			env.Hit("h6.stage_users_checked")
		}
	}
}

func cumEnds(fe *FileExpect) string {
	var p []string
	var cum int64
	for _, s := range fe.Stages {
		cum += s.DurNs
		p = append(p, dur(fe.StageStartNs+cum).String())
	}
	return "[" + strings.Join(p, " ") + "]"
}

func keptIDs(fe *FileExpect, kept []int) []string {
	var out []string
	for _, j := range kept {
		out = append(out, fe.Stages[j].ID)
	}
	return out
}

var _ = strconv.Itoa
