package verifharness

func init() {
	bindProp("C01", "H3", "H1", "H3", "H1", "H6")
	bindProp("C17", "H3", "H1")
	bindProp("C03", "H1", "H1", "H2", "H6")
	bindProp("C04", "H1", "H1", "H2")
	bindProp("C05", "H1", "H1", "H6")
	bindProp("C06", "H1", "H1", "H6")
	bindProp("C07", "H1", "H1", "H6")
	bindProp("C08", "H1")
	bindProp("C09", "H5", "H1")
	bindProp("C10", "H5")
	bindProp("C11", "H5")
	bindProp("C12", "H5")
	bindProp("C13", "H5")
	bindProp("C02", "H2", "H2", "H1", "H5")
	bindProp("C16", "H1")
	bindProp("C19", "H1")
	bindProp("C20", "H1")
	bindProp("C18", "H4")
	bindProp("C14", "H6")
	bindProp("C15", "H6")
}
