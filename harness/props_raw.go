package verifharness

func init() {
	bindProp("C01", "H3")
	bindProp("C17", "H3")
}
