package verifharness

import (
	"encoding/json"
	"fmt"
	"sort"
	"strings"
	"time"

	"github.com/form3tech-oss/f1/v2/internal/verifsim/simrt"
)

// H6: generated inputs (rate strings, stage strings, flag vectors, YAML config files with disk faults)
// handed to f1's real constructors; what is accepted is *run* under the simulator (H1 machinery). C14, C15.

type FileStageExpect struct {
	ID        string            `json:"id"`
	Mode      string            `json:"mode"`
	DurNs     int64             `json:"dur"`
	Params    map[string]string `json:"params"`              // effective parameters (own, else default's, else none)
	TickNs    int64             `json:"tick,omitempty"`      // constant mode, distribution none: expected tick interval
	TickRate  int               `json:"tick_rate,omitempty"` // and per-tick rate
	UsersConc int               `json:"users,omitempty"`
	Def       string            `json:"def,omitempty"` // effective definition (mode, duration, fields): equal for twin stages
}

type FileExpect struct {
	HasStageStart bool              `json:"has_stage_start"`
	StageStartNs  int64             `json:"stage_start"` // ns since Epoch
	Stages        []FileStageExpect `json:"stages"`
	TotalNs       int64             `json:"total"`
	MaxDurationNs int64             `json:"max_duration"`
	Concurrency   int               `json:"concurrency"`
	MaxIterations uint64            `json:"max_iterations"`
	MaxFailures   uint64            `json:"max_failures"`
	MaxFailRate   int               `json:"max_failures_rate"`
	IgnoreDropped bool              `json:"ignore_dropped"`
	ParamNames    []string          `json:"param_names"`
	TwoUsers      bool              `json:"two_users,omitempty"`
	SlowBodies    bool              `json:"slow_bodies,omitempty"` // iterations outlive their stage: per-stage counts are not judged
}

// InputExpect describes a C14 input and what it spells.
type InputExpect struct {
	Kind  string `json:"kind"`  // rate | stages | flags | yaml
	Input string `json:"input"` // the interesting part of the input
	// Spelled: the input is a well-formed spelling of "N per Interval": if accepted it must mean that
	Spelled     bool  `json:"spelled,omitempty"`
	SpelledN    int   `json:"spelled_n,omitempty"`
	SpelledIvNs int64 `json:"spelled_iv,omitempty"`
	// WellFormed: the generator produced the input from the documented grammar with sane values
	WellFormed bool `json:"well_formed,omitempty"`
	// NoWorkers: the input asks for a concurrency < 1
	NoWorkers bool   `json:"no_workers,omitempty"`
	Mutation  string `json:"mutation,omitempty"`
}

type ystage struct {
	fields map[string]string // rendered scalars by yaml key
	params map[string]string // nil = omitted
}

func (s ystage) render(indent string, first string) string {
	if len(s.fields) == 0 && s.params == nil {
		return first + "{}\n"
	}
	keys := make([]string, 0, len(s.fields))
	for k := range s.fields {
		keys = append(keys, k)
	}
	sort.Strings(keys)
	var b strings.Builder
	pre := first
	for _, k := range keys {
		fmt.Fprintf(&b, "%s%s: %s\n", pre, k, s.fields[k])
		pre = indent
	}
	if s.params != nil {
		fmt.Fprintf(&b, "%sparameters:\n", pre)
		pre = indent
		pk := make([]string, 0, len(s.params))
		for k := range s.params {
			pk = append(pk, k)
		}
		sort.Strings(pk)
		if len(pk) == 0 {
			b.Reset()
			pre2 := first
			for _, k := range keys {
				fmt.Fprintf(&b, "%s%s: %s\n", pre2, k, s.fields[k])
				pre2 = indent
			}
			fmt.Fprintf(&b, "%sparameters: {}\n", pre2)
			return b.String()
		}
		for _, k := range pk {
			fmt.Fprintf(&b, "%s  %s: %q\n", indent, k, s.params[k])
		}
	}
	return b.String()
}

type ydoc struct {
	scenario   *string
	def        ystage
	limits     map[string]string
	stageStart *string
	stages     []ystage
}

func (d ydoc) render() string {
	var b strings.Builder
	if d.scenario != nil {
		fmt.Fprintf(&b, "scenario: %s\n", *d.scenario)
	}
	if len(d.def.fields) > 0 || d.def.params != nil {
		b.WriteString("default:\n")
		b.WriteString(d.def.render("  ", "  "))
	}
	if len(d.limits) > 0 {
		b.WriteString("limits:\n")
		keys := make([]string, 0, len(d.limits))
		for k := range d.limits {
			keys = append(keys, k)
		}
		sort.Strings(keys)
		for _, k := range keys {
			fmt.Fprintf(&b, "  %s: %s\n", k, d.limits[k])
		}
	}
	if d.stageStart != nil {
		fmt.Fprintf(&b, "schedule:\n  stage-start: %q\n", *d.stageStart)
	}
	if len(d.stages) > 0 {
		b.WriteString("stages:\n")
		for _, s := range d.stages {
			b.WriteString(s.render("    ", "  - "))
		}
	}
	return b.String()
}

var modeFields = map[string][]string{
	"constant": {"rate", "distribution", "jitter"},
	"ramp":     {"start-rate", "end-rate", "distribution", "jitter"},
	"staged":   {"stages", "iteration-frequency", "distribution", "jitter"},
	"gaussian": {"volume", "repeat", "iteration-frequency", "peak", "weights", "standard-deviation", "distribution", "jitter"},
	"users":    {"concurrency"},
}

func msStr(v int64) string { return fmt.Sprintf("%dms", v) }

// genFileDoc draws a well-formed config file with expectations. now0 is the simulated instant (ns since
// Epoch) at which the first run parses it.
func genFileDoc(r *simrt.Rng, now0 int64, forRestart bool) (ydoc, *FileExpect) {
	exp := &FileExpect{}
	scen := "scen0"
	d := ydoc{scenario: &scen, def: ystage{fields: map[string]string{}}, limits: map[string]string{}}
	// defaults: any subset of fields
	defVals := map[string]string{
		"rate": fmt.Sprintf("%d/%dms", 1+r.Intn(4), simrt.Pick(r, 20, 50, 100)), "distribution": "none", "jitter": simrt.Pick(r, "0", "0", "50"),
		"start-rate": fmt.Sprintf("%d/100ms", r.Intn(3)), "end-rate": fmt.Sprintf("%d/100ms", 4+r.Intn(4)),
		"stages": "0s:1,200ms:4", "iteration-frequency": simrt.Pick(r, "50ms", "100ms"), "volume": "200", "repeat": "2s",
		"peak": "1s", "weights": `""`, "standard-deviation": "400ms", "concurrency": fmt.Sprint(1 + r.Intn(3)),
		"duration": msStr(int64(simrt.Pick(r, 150, 200, 350)) + 3), "mode": simrt.Pick(r, "constant", "users"),
	}
	for _, k := range sortedKeys(defVals) { // sorted: map order must not influence the draws
		if r.Intn(2) == 0 || k == "jitter" {
			d.def.fields[k] = defVals[k]
		}
	}
	paramPool := []string{"F1V_A", "F1V_B", "F1V_C"}
	exp.ParamNames = append([]string{"F1V_STAGE_ID"}, paramPool...)
	if r.Intn(3) == 0 {
		d.def.params = map[string]string{"F1V_DEF": "d"}
		for _, p := range paramPool {
			if r.Intn(2) == 0 {
				d.def.params[p] = "def-" + p
			}
		}
		exp.ParamNames = append(exp.ParamNames, "F1V_DEF")
	}
	n := 1 + r.Intn(5)
	if forRestart {
		n = 2 + r.Intn(4)
	}
	twoUsers := r.Intn(10) == 0
	if twoUsers && n < 2 {
		n = 2
	}
	exp.TwoUsers = twoUsers
	conc := 6 + r.Intn(10)
	for i := 0; i < n; i++ {
		st := ystage{fields: map[string]string{}}
		fe := FileStageExpect{ID: fmt.Sprintf("stage-%d", i)}
		mode := simrt.Pick(r, "constant", "constant", "constant", "users", "ramp", "staged", "gaussian")
		if twoUsers && i < 2 {
			mode = "users" // two users stages in a row
		}
		if m, ok := d.def.fields["mode"]; ok && r.Intn(3) == 0 {
			mode = m // omitted: taken from the default
		} else {
			st.fields["mode"] = mode
		}
		fe.Mode = mode
		if dv, ok := d.def.fields["duration"]; ok && r.Intn(3) == 0 {
			t, _ := time.ParseDuration(dv)
			fe.DurNs = int64(t)
		} else {
			// + 3 ms: the stage's own deadline (duration - 20 ms) must not fall on a tick of the stage (two timers
			// due at the same instant in one select are the one ordering the simulator does not control, §2.3)
			ms_ := int64(simrt.Pick(r, 100, 150, 200, 250, 300, 400, 600)) + 3
			st.fields["duration"] = msStr(ms_)
			fe.DurNs = ms_ * ms
		}
		eff := map[string]string{}
		for _, f := range modeFields[mode] {
			dv, inDef := d.def.fields[f]
			if inDef && r.Intn(2) == 0 {
				eff[f] = dv // omitted
				continue
			}
			var v string
			switch f {
			case "rate":
				v = fmt.Sprintf("%d/%dms", 1+r.Intn(4), simrt.Pick(r, 20, 50, 100))
			case "distribution":
				v = "none"
			case "jitter":
				v = "0"
			case "concurrency":
				v = fmt.Sprint(1 + r.Intn(3))
			default:
				v = defVals[f]
			}
			st.fields[f] = v
			eff[f] = v
		}
		if r.Intn(4) == 0 {
			// a field that belongs to another mode is carried along and ignored
			all := []string{"concurrency", "end-rate", "iteration-frequency", "peak", "rate", "repeat", "stages", "standard-deviation", "start-rate", "volume"}
			f := all[r.Intn(len(all))]
			if _, used := eff[f]; !used {
				st.fields[f] = defVals[f]
			}
		}
		switch mode {
		case "constant":
			var nn int
			var iv int64
			fmt.Sscanf(eff["rate"], "%d/%dms", &nn, &iv)
			fe.TickNs, fe.TickRate = iv*ms, nn
			if eff["jitter"] != "0" {
				fe.TickNs, fe.TickRate = 0, 0 // inherits the default section's jitter: per-tick values vary
			}
		case "users":
			fmt.Sscan(eff["concurrency"], &fe.UsersConc)
		}
		// parameters: own map (always with the stage id) or omitted (then the default's, or none)
		if r.Intn(5) != 0 {
			st.params = map[string]string{"F1V_STAGE_ID": fe.ID}
			for _, p := range paramPool {
				if r.Intn(2) == 0 {
					st.params[p] = fmt.Sprintf("%s-%d", p, i)
				}
			}
			fe.Params = map[string]string{}
			for k, v := range st.params {
				fe.Params[k] = v
			}
			if r.Intn(12) == 0 {
				// a parameter the operating system refuses (its name contains '='): it cannot be exported, the others
				// of the stage still are, and none of them outlives the stage
				st.params["F1V=BAD"] = "x"
			}
		} else if d.def.params != nil {
			fe.Params = d.def.params
		} else {
			fe.Params = map[string]string{}
		}
		if j, has := eff["jitter"]; mode != "gaussian" && mode != "users" && (!has || j == "0") {
			// behaviour is a function of the time since the stage began (gaussian follows the wall clock, jitter is random)
			fe.Def = fmt.Sprintf("%s/%d/%v", fe.Mode, fe.DurNs, eff)
		}
		exp.TotalNs += fe.DurNs
		exp.Stages = append(exp.Stages, fe)
		d.stages = append(d.stages, st)
	}
	if r.Intn(5) == 0 {
		// the same stage twice ("ramp up, pause, ramp up again"): both occurrences must behave alike
		j := r.Intn(len(d.stages))
		d.stages = append(d.stages, d.stages[j])
		exp.Stages = append(exp.Stages, exp.Stages[j])
		exp.TotalNs += exp.Stages[j].DurNs
	}
	exp.MaxDurationNs = exp.TotalNs + int64(simrt.Pick(r, 200, 500, 1000))*ms
	if r.Intn(5) == 0 {
		exp.MaxDurationNs = exp.TotalNs * int64(3+r.Intn(6)) / 10
	}
	// an odd sub-millisecond part: the run's deadline (max-duration - 10 ms) must not coincide with a stage
	// boundary or a tick (same-instant timers feeding one goroutine are not ordered by the simulator, §2.3)
	exp.MaxDurationNs = exp.MaxDurationNs/ms*ms + 137*1000
	if r.Intn(6) == 0 {
		conc = 1 + r.Intn(2) // fewer workers than requests per tick: iterations are dropped
	}
	exp.Concurrency = conc
	exp.MaxIterations = uint64(simrt.Pick(r, 0, 0, 0, 5, 40))
	exp.MaxFailures = uint64(r.Intn(3))
	exp.MaxFailRate = simrt.Pick(r, 0, 0, 10)
	exp.IgnoreDropped = r.Intn(4) != 0
	d.limits["max-duration"] = time.Duration(exp.MaxDurationNs).String()
	d.limits["concurrency"] = fmt.Sprint(conc)
	d.limits["max-iterations"] = fmt.Sprint(exp.MaxIterations)
	d.limits["ignore-dropped"] = fmt.Sprint(exp.IgnoreDropped)
	if exp.MaxFailures > 0 || r.Intn(2) == 0 {
		d.limits["max-failures"] = fmt.Sprint(exp.MaxFailures)
	} else {
		exp.MaxFailures = 0
	}
	if exp.MaxFailRate > 0 || r.Intn(2) == 0 {
		d.limits["max-failures-rate"] = fmt.Sprint(exp.MaxFailRate)
	} else {
		exp.MaxFailRate = 0
	}
	if forRestart || r.Intn(2) == 0 {
		back := int64(0)
		switch r.Intn(4) {
		case 0:
		case 1: // around a stage boundary
			var cum int64
			k := r.Intn(len(exp.Stages))
			for i := 0; i <= k; i++ {
				cum += exp.Stages[i].DurNs
			}
			back = cum + simrt.Pick(r, int64(-30*ms), -1, 0, 1, 30*ms)
		default:
			back = r.Int63n(exp.TotalNs + 200*ms)
		}
		if back < 0 {
			back = 0
		}
		if forRestart {
			back = 0
		}
		exp.HasStageStart = true
		exp.StageStartNs = now0 - back
		s := simrt.Epoch.Add(time.Duration(exp.StageStartNs)).Format(time.RFC3339Nano)
		d.stageStart = &s
	}
	return d, exp
}

// mutateBytes applies one "disk fault" to the file content.
func mutateBytes(r *simrt.Rng, s string) (string, string) {
	b := []byte(s)
	if len(b) == 0 {
		return s, "none"
	}
	switch r.Intn(6) {
	case 0:
		k := r.Intn(len(b))
		return string(b[:k]), fmt.Sprintf("truncate@%d", k)
	case 1:
		k := r.Intn(len(b))
		b[k] ^= 1 << uint(r.Intn(8))
		return string(b), fmt.Sprintf("bitflip@%d", k)
	case 2:
		k := r.Intn(len(b))
		m := min(len(b)-k, 1+r.Intn(40))
		out := append(append(append([]byte{}, b[:k+m]...), b[k:k+m]...), b[k+m:]...)
		return string(out), fmt.Sprintf("dup@%d+%d", k, m)
	case 3:
		k := r.Intn(len(b))
		for i := k; i < len(b); i++ {
			b[i] = 0
		}
		return string(b), fmt.Sprintf("zerotail@%d", k)
	case 4:
		lines := strings.Split(s, "\n")
		k := r.Intn(len(lines))
		lines = append(lines[:k], lines[k+1:]...)
		return strings.Join(lines, "\n"), fmt.Sprintf("dropline@%d", k)
	default:
		k := r.Intn(len(b))
		n := 1 + r.Intn(30)
		junk := make([]byte, n)
		for i := range junk {
			junk[i] = byte(r.Intn(256))
		}
		out := append(append(append([]byte{}, b[:k]...), junk...), b[k:]...)
		return string(out), fmt.Sprintf("junk@%d+%d", k, n)
	}
}

var goDurUnits = []string{"ns", "us", "µs", "ms", "s", "m", "h"}

// genRateString draws a rate string from the grammar or a near-miss; returns what it spells.
func genRateString(r *simrt.Rng) (string, bool, int, int64) {
	n := simrt.Pick(r, 0, 1, 2, 3, 5, 10)
	switch r.Intn(14) {
	case 0: // bare N: per second
		return fmt.Sprint(n), true, n, int64(time.Second)
	case 1: // N/unit
		u := simrt.Pick(r, "ms", "s")
		d, _ := time.ParseDuration("1" + u)
		if u == "ms" {
			u = "100ms"
			d = 100 * time.Millisecond
		}
		return fmt.Sprintf("%d/%s", n, u), true, n, int64(d)
	case 2, 3: // N/Dunit
		k := simrt.Pick(r, 10, 20, 50, 100, 250, 1000)
		return fmt.Sprintf("%d/%dms", n, k), true, n, int64(k) * ms
	case 4: // fractional / compound Go durations: valid spellings
		ds := simrt.Pick(r, ".5s", "0.1s", "0.25s", "1.5s", "1s500ms", "0.05s", "1m0.2s")
		d, _ := time.ParseDuration(ds)
		return fmt.Sprintf("%d/%s", n, ds), true, n, int64(d)
	case 5: // bare unit: one of it
		u := simrt.Pick(r, "s", "m")
		d, _ := time.ParseDuration("1" + u)
		return fmt.Sprintf("%d/%s", n, u), true, n, int64(d)
	case 6:
		if r.Intn(3) == 0 { // a zero-padded count is the same count
			k := simrt.Pick(r, 100, 200, 500)
			return fmt.Sprintf("%03d/%dms", n, k), true, n, int64(k) * ms
		}
		return simrt.Pick(r, "10/", "/", "/s", "1/ ", " 1/s", "1 /s", "", "//", "5/s/s"), false, 0, 0
	case 7:
		return simrt.Pick(r, "1/0s", "3/0ms", "1/-1s", "2/-100ms", "1/0", "0/0s"), false, 0, 0
	case 8:
		return simrt.Pick(r, "-1/s", "+1/s", "1e3/s", "0x10/s", "1.5/s", "１/s", "9223372036854775807/s", "99999999999999999999/s"), false, 0, 0
	case 9:
		return simrt.Pick(r, "1/1", "1/s1", "1/1x", "1/1.s", "1/..5s", "1/h1", "1/1h1", "s", "ms", "1/µs", "1/us", "1/1ns"), false, 0, 0
	case 10: // tiny but valid intervals would flood the simulator: spelled, checked for acceptance only
		return simrt.Pick(r, "1/1ms", "2/5ms"), true, 0, 0
	case 11:
		return fmt.Sprintf("%d/%dh", n, 1+r.Intn(3)), true, n, int64(time.Hour) * int64(1)
	default:
		k := simrt.Pick(r, 100, 200, 500)
		return fmt.Sprintf("%d/%dms", n, k), true, n, int64(k) * ms
	}
}

type h6 struct{}

func init() { register(h6{}) }

func (h6) Name() string    { return "H6" }
func (h6) Props() []string { return []string{"C14", "C15"} }

func (h6) Decode(raw json.RawMessage) (any, error) {
	var c H1Cfg
	err := json.Unmarshal(raw, &c)
	return &c, err
}

func (h6) Ties(cfg any) bool { return (h1{}).Ties(cfg) }

func (h6) Describe(cfg any) string {
	c := cfg.(*H1Cfg)
	if c.Input != nil {
		return fmt.Sprintf("H6 %s %q mode=%s flags=%v %s", c.Input.Kind, c.Input.Input, c.Mode, c.Flags, c.Input.Mutation)
	}
	if c.File != nil {
		return fmt.Sprintf("H6 file stages=%d stage_start=%v cancel=%s runs=%d", len(c.File.Stages), c.File.HasStageStart, durStr(c.CancelAtNs), c.Runs)
	}
	return "H6"
}

func trivialProg(r *simrt.Rng) ScenarioProg {
	// every body takes a little simulated time: users-mode stages loop as fast as bodies return
	return ScenarioProg{Iter: []IterPlan{{SleepNs: int64(2+r.Intn(3))*ms + 7}}}
}

func (h h6) Gen(prop, tier string, r *simrt.Rng) (any, simrt.Config) {
	c := &H1Cfg{Driver: simrt.Pick(r, "api", "api", "cli"), Runs: 1, Concurrency: 12, Verbose: true}
	c.Prog = trivialProg(r)
	c.WaitTimeoutNs = 500*ms + 311
	sc := simrt.Config{Strategy: simrt.Pick(r, "sticky", "rr", "sticky", "rw"), SwitchProb: 0.02, MaxSteps: 400000, MaxSimNs: int64(2 * time.Hour),
		SelectShuffle: simrt.Pick(r, 0.0, 0.3)}
	if prop == "C15" {
		h.genFileRun(c, r, tier)
		if r.Intn(6) == 0 {
			// iterations that are still running when the next stage (and the one after) has taken over
			c.Prog.Iter = []IterPlan{{SleepNs: int64(simrt.Pick(r, 150, 450, 1300))*ms + 17}, {SleepNs: 3*ms + 5}}
			c.File.SlowBodies = true
		}
		if c.File.TwoUsers && r.Intn(2) == 0 {
			// iterations that straddle the pause between two users stages
			c.Prog.Iter = []IterPlan{{SleepNs: int64(simrt.Pick(r, 35, 90, 260))*ms + 17}}
			c.File.SlowBodies = true
		}
		if r.Intn(4) == 0 {
			c.Driver = "cli" // the limits reach the run through the command's option mapping
			c.Verbose, c.Interactive = true, false
			c.WaitTimeoutNs = 10*int64(time.Second) + 311 // the command's own completion timeout
		}
		sc.MaxSimNs += c.StartOffsetNs
		return c, sc
	}
	if prop != "C14" {
		// whole-run properties (C01, C03, C05, C06, C07 …) on config-file runs: several stages of mixed modes on
		// one pool manager, iterations that outlive their stage, cleanups, failures, cancellation, restart
		h.genFileRun(c, r, tier)
		failShare := simrt.Pick(r, 0.0, 0.1, 0.3)
		if prop == "C07" || prop == "C01" {
			failShare = simrt.Pick(r, 0.2, 0.5)
		}
		c.Prog.Iter = genIterPlans(r, 1+r.Intn(10), failShare, simrt.Pick(r, 5, 40, 120, 400), simrt.Pick(r, 0, 1, 3), allFailBehavs)
		for i := range c.Prog.Iter {
			if c.Prog.Iter[i].SleepNs < 2*ms {
				c.Prog.Iter[i].SleepNs = 2*ms + int64(i+1)*1019
			}
			// an iteration that marks failure and then keeps running across the end of its stage
			if b := c.Prog.Iter[i].Behav; b != bPass && !behavStops(b) && r.Intn(2) == 0 {
				c.Prog.Iter[i].After = int64(simrt.Pick(r, 25, 60, 150, 400))*ms + 23
			}
		}
		if r.Intn(2) == 0 {
			for j, m := 0, 1+r.Intn(3); j < m; j++ {
				cp := CleanupPlan{SleepNs: int64(r.Intn(3)) * 5 * ms}
				if r.Intn(8) == 0 {
					cp.Behav = simrt.Pick(r, bFail, bFailNow, bPanicErr)
				}
				c.Prog.SetupCleanups = append(c.Prog.SetupCleanups, cp)
			}
		}
		c.Verbose = r.Intn(2) == 0
		c.Metrics = r.Intn(2) == 0
		c.WaitTimeoutNs = int64(simrt.Pick(r, 50, 300, 2000))*ms + odd(r)
		if c.Runs == 1 && r.Intn(3) == 0 {
			c.CancelAtNs = r.Int63n(c.File.TotalNs) + 1
		}
		sc = genSimCfg(r, true)
		sc.MaxSimNs += c.StartOffsetNs
		return c, sc
	}
	// ---- C14
	c.MaxDurationNs = int64(simrt.Pick(r, 300, 600, 1100))*ms + 10*ms + odd(r)
	switch r.Intn(9) {
	case 8: // gaussian --peak-rate: N/<duration> is the rate at the peak
		n := simrt.Pick(r, 1, 2, 3, 10)
		ds := simrt.Pick(r, "s", "1s", "100ms", "10ms", "2ms", "1500us", "500us", "2s", "250ms")
		d, _ := time.ParseDuration(strings.TrimPrefix("1"+ds, "11"))
		if ds == "s" {
			d = time.Second
		} else {
			d, _ = time.ParseDuration(ds)
		}
		s := fmt.Sprintf("%d/%s", n, ds)
		c.Mode = "gaussian"
		peakH := simrt.Pick(r, 12, 12, 6, 18)
		c.Flags = map[string]string{"peak-rate": s, "peak": fmt.Sprintf("%dh", peakH), "distribution": "none", "iteration-frequency": "1s"}
		c.Driver = "api"
		c.Concurrency = 4
		c.StartOffsetNs = int64(r.Intn(3))*int64(24*time.Hour) + int64(peakH)*int64(time.Hour) - int64(2*time.Second)
		if r.Intn(4) == 0 {
			// an earlier run of the same process used the same trigger with another peak (and another peak rate)
			c.Runs = 2
			c.Flags1 = map[string]string{"peak-rate": "7/s", "peak": fmt.Sprintf("%dh", (peakH+9)%24), "distribution": "none", "iteration-frequency": "1s"}
		}
		c.MaxDurationNs = int64(4*time.Second) + 10*ms + odd(r)
		c.Input = &InputExpect{Kind: "peakrate", Input: s, Spelled: true, SpelledN: n, SpelledIvNs: int64(d)}
		c.Prog = ScenarioProg{Iter: []IterPlan{{}}}
		sc.MaxSimNs += c.StartOffsetNs
		sc.MaxSteps = 1500000
	case 0, 1, 2: // rate strings through the constant (or ramp) trigger
		s, spelled, n, iv := genRateString(r)
		c.Mode = "constant"
		c.Flags = map[string]string{"rate": s, "distribution": "none"}
		c.Input = &InputExpect{Kind: "rate", Input: s, Spelled: spelled, SpelledN: n, SpelledIvNs: iv}
		if spelled && iv > 0 && iv <= int64(time.Second) {
			c.MaxDurationNs = iv*int64(2+r.Intn(4)) + 10*ms + odd(r)
			if r.Intn(5) == 0 {
				// an earlier run in the same process used jitter and another rate: the string still means what it spells
				c.Runs = 2
				c.Flags1 = map[string]string{"rate": "3/50ms", "distribution": simrt.Pick(r, "none", "regular"), "jitter": simrt.Pick(r, "50", "90")}
			}
		}
		if r.Intn(4) == 0 {
			c.Mode = "ramp"
			s2, _, _, _ := genRateString(r)
			c.Flags = map[string]string{"start-rate": s, "end-rate": s2, "distribution": "none", "ramp-duration": simrt.Pick(r, "0s", "1s", "300ms", "-1s")}
			c.Input.Spelled = false
			c.Input.Input = s + " .. " + s2
		}
	case 3: // stages strings
		s := simrt.Pick(r, "0s:1,300ms:5", "300ms:5", "0s:0", "1s:", ":5", "300ms:5,", ",", "", "300ms:-5", "-300ms:5", "300ms:5:1", "300ms:1e3",
			"0s:1, 10s:1", " 100ms : 3 ", "100ms:3;200ms:4", "100ms:99999999999", "9223372036s:1", "1ns:1,1ns:2,1ns:3")
		c.Mode = "staged"
		c.Flags = map[string]string{"stages": s, "distribution": simrt.Pick(r, "none", "regular", "random", "bogus", ""),
			"iterationFrequency": simrt.Pick(r, "100ms", "1s", "0s", "-1s", "1ns", "50ms")}
		c.Input = &InputExpect{Kind: "stages", Input: s + " @" + c.Flags["iterationFrequency"] + " " + c.Flags["distribution"]}
	case 4: // flag vectors
		mode := simrt.Pick(r, "constant", "staged", "ramp", "gaussian", "users")
		genTrigger(c, r, mode, true)
		c.Input = &InputExpect{Kind: "flags", WellFormed: true}
		switch r.Intn(7) {
		case 0:
			c.Concurrency = simrt.Pick(r, 0, -1, -100)
			c.Driver = "cli"
			c.Input.NoWorkers, c.Input.WellFormed = true, false
		case 1:
			if mode == "gaussian" {
				k := simrt.Pick(r, "standard-deviation", "iteration-frequency", "repeat", "peak", "volume", "weights")
				c.Flags[k] = simrt.Pick(r, "0s", "-1s", "1ns", "0", "-5", "abc", "1,,2", "1,x")
				c.Input.WellFormed = false
			}
		case 2:
			c.Flags["jitter"] = simrt.Pick(r, "0.001", "99.9", "33.3", "1e-9")
		case 3:
			c.Flags["distribution"] = simrt.Pick(r, "bogus", "", "NONE", "regular ")
			c.Input.WellFormed = false
		case 4:
			c.MaxDurationNs = simrt.Pick(r, int64(0), 5*ms, 10*ms, -int64(time.Second), 1)
			c.Input.WellFormed = false
		case 5:
			c.MaxFailRate = simrt.Pick(r, -1, 101, 1000)
			c.Driver = "cli"
			c.Input.WellFormed = false
		case 6:
			if mode == "gaussian" {
				// a peak far outside the repeat window (someone shortened --repeat and kept the default 14 h peak)
				rep, _ := time.ParseDuration(c.Flags["repeat"])
				sd, _ := time.ParseDuration(c.Flags["standard-deviation"])
				k := simrt.Pick(r, 2, 5, 7, 8, 9, 12, 40, 500)
				c.Flags["peak"] = (rep + time.Duration(k)*sd + time.Duration(r.Intn(1000))*time.Millisecond).String()
				if r.Intn(3) == 0 {
					c.Flags["peak"] = simrt.Pick(r, "14h", "24h", "1000h")
				}
				if r.Intn(3) == 0 {
					// a repeat window of one tick, or shorter than a tick
					f, _ := time.ParseDuration(c.Flags["iteration-frequency"])
					c.Flags["repeat"] = simrt.Pick(r, f, f/2, f+time.Millisecond, 2*f, f-time.Millisecond).String()
					c.Flags["peak"] = simrt.Pick(r, "0s", "1ms", c.Flags["repeat"])
				}
				c.Input.WellFormed = false
			}
		}
		c.Input.Input = fmt.Sprintf("%s %v c=%d maxdur=%s", mode, c.Flags, c.Concurrency, durStr(c.MaxDurationNs))
	default: // YAML documents: well-formed, with fields dropped / odd values, or hit by a disk fault
		c.Mode = "file"
		doc, exp := genFileDoc(r, 0, false)
		c.Input = &InputExpect{Kind: "yaml", WellFormed: true}
		if r.Intn(12) == 0 {
			// the read itself fails: the path names a directory (opens, cannot be read) or nothing at all
			c.FilePathKind = simrt.Pick(r, "dir", "dir", "missing")
			c.Input.WellFormed, c.Input.Mutation = false, "unreadable-path-"+c.FilePathKind
			c.Driver = simrt.Pick(r, "api", "cli")
		}
		switch r.Intn(6) {
		case 0: // drop a field somewhere
			c.Input.WellFormed = false
			switch r.Intn(4) {
			case 0:
				delete(doc.def.fields, "jitter")
				for i := range doc.stages {
					delete(doc.stages[i].fields, "jitter")
				}
				c.Input.Mutation = "no-jitter-anywhere"
			case 1:
				k := simrt.Pick(r, "max-duration", "concurrency", "max-iterations", "ignore-dropped")
				delete(doc.limits, k)
				c.Input.Mutation = "drop-limit-" + k
			case 2:
				doc.scenario = nil
				c.Input.Mutation = "drop-scenario"
			default:
				doc.stages = nil
				c.Input.Mutation = "no-stages"
			}
		case 1: // odd values
			c.Input.WellFormed = false
			switch r.Intn(7) {
			case 6:
				// the default section asks for no users, a users stage inherits it
				v := simrt.Pick(r, "0", "-1")
				doc.def.fields["concurrency"] = v
				i := r.Intn(len(doc.stages))
				doc.stages[i].fields["mode"] = "users"
				delete(doc.stages[i].fields, "concurrency")
				doc.stageStart = nil
				c.Input.NoWorkers = true
				c.Input.Mutation = "default.concurrency=" + v + " inherited by a users stage"
			case 0:
				v := simrt.Pick(r, "0", "-1", "-7")
				doc.limits["concurrency"] = v
				c.Input.NoWorkers = true
				c.Input.Mutation = "limits.concurrency=" + v
			case 1:
				i := r.Intn(len(doc.stages))
				doc.stages[i].fields["mode"] = "users"
				v := simrt.Pick(r, "0", "-1")
				doc.stages[i].fields["concurrency"] = v
				doc.stageStart = nil // a stage that already finished is skipped without being looked at
				c.Input.NoWorkers = true
				c.Input.Mutation = "users-stage.concurrency=" + v
			case 2:
				i := r.Intn(len(doc.stages))
				v := simrt.Pick(r, "0s", "-1s", "10ms", "19ms", "20ms", "1ns")
				doc.stages[i].fields["duration"] = v
				c.Input.Mutation = "stage.duration=" + v
			case 3:
				i := r.Intn(len(doc.stages))
				doc.stages[i].fields["mode"] = "constant"
				s, _, _, _ := genRateString(r)
				doc.stages[i].fields["rate"] = fmt.Sprintf("%q", s)
				doc.stages[i].fields["distribution"] = "none"
				doc.stages[i].fields["jitter"] = "0"
				c.Input.Mutation = "stage.rate=" + s
			case 4:
				v := simrt.Pick(r, "0s", "-1s", "10ms", "1ns")
				doc.limits["max-duration"] = v
				c.Input.Mutation = "limits.max-duration=" + v
			default:
				i := r.Intn(len(doc.stages))
				doc.stages[i].fields["mode"] = simrt.Pick(r, "bogus", `""`, "Constant", "file")
				c.Input.Mutation = "stage.mode=" + doc.stages[i].fields["mode"]
			}
		case 2, 3: // disk faults
			c.Input.WellFormed = false
			text := doc.render()
			text, c.Input.Mutation = mutateBytes(r, text)
			if r.Intn(3) == 0 {
				var m2 string
				text, m2 = mutateBytes(r, text)
				c.Input.Mutation += "+" + m2
			}
			c.FileYAML = text
		case 4:
			c.Input.WellFormed = false
			c.FileYAML = simrt.Pick(r, "", "\x00\x00\x00", "{", "[]", "- a\n- b", "scenario: [1,2]", "stages: 5", "a: &a [*a]", "\t\t", "%YAML 9.9", "stages:\n  - {}", "limits: {max-duration: 1s}")
			c.Input.Mutation = "arbitrary"
		}
		if c.FileYAML == "" && c.Input.Mutation != "arbitrary" {
			c.FileYAML = doc.render()
		}
		if c.Input.WellFormed {
			c.File = exp
		}
		c.Input.Input = c.Input.Mutation
		// whatever is accepted is stopped after a while: configurations may ask for hours
		c.CancelAtNs = int64(1500)*ms + odd(r)
	}
	if c.CancelAtNs == 0 && !(c.Input != nil && c.Input.Spelled) {
		c.CancelAtNs = int64(2500)*ms + odd(r)
	}
	return c, sc
}

// genFileRun: C15 — a well-formed file, optionally crashed and restarted.
func (h6) genFileRun(c *H1Cfg, r *simrt.Rng, tier string) {
	c.Mode = "file"
	c.Driver = "api"
	c.StartOffsetNs = int64(1+r.Intn(1000))*int64(time.Second) + int64(r.Intn(1000))*ms
	restart := r.Intn(2) == 0
	doc, exp := genFileDoc(r, c.StartOffsetNs, restart)
	c.FileYAML = doc.render()
	c.File = exp
	c.Concurrency = exp.Concurrency
	c.MaxDurationNs = exp.MaxDurationNs
	c.MaxIterations, c.MaxFailures, c.MaxFailRate, c.IgnoreDropped = exp.MaxIterations, exp.MaxFailures, exp.MaxFailRate, exp.IgnoreDropped
	c.ReadEnv = exp.ParamNames
	if r.Intn(3) == 0 {
		c.Prog.SetupSleepNs = int64(simrt.Pick(r, 30, 120, 700))*ms + 29 // triggering starts after setup, whenever that is
	}
	if r.Intn(4) == 0 {
		// some iterations fail, so that max-failures / max-failures-rate of the limits section matter
		c.Prog.Iter = append(c.Prog.Iter, IterPlan{SleepNs: 2*ms + 11, Behav: bFail}, IterPlan{SleepNs: 3*ms + 13})
	}
	if restart {
		c.Runs = 2
		// crash instant: anywhere, stage boundaries favoured
		var cum int64
		k := r.Intn(len(exp.Stages))
		for i := 0; i <= k; i++ {
			cum += exp.Stages[i].DurNs
		}
		switch r.Intn(3) {
		case 0:
			c.CancelAtNs = cum + simrt.Pick(r, int64(-30*ms), -20*ms, -1, 1, 30*ms, -2600*ms, -2500*ms-1)
		case 1:
			c.CancelAtNs = r.Int63n(exp.TotalNs) + 1
		default:
			c.CancelAtNs = cum - 2500*ms + simrt.Pick(r, int64(-1), 1, 5*ms)
		}
		if c.CancelAtNs <= 0 {
			c.CancelAtNs = 1 + r.Int63n(exp.TotalNs)
		}
	}
}

func (h6) NonTrivial(prop string, env *Env, st simrt.Stats) bool {
	if prop != "C14" && prop != "C15" {
		return (h1{}).NonTrivial(prop, env, st)
	}
	if prop == "C15" {
		return env.Cover["h6.plan_checked"] > 0
	}
	return env.Cover["h6.input_rejected"] > 0 || env.Cover["h6.input_accepted_and_run"] > 0
}
