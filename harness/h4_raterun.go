//go:build !noh4

package verifharness

import (
	"context"
	"time"

	"github.com/form3tech-oss/f1/v2/internal/raterun"
)

// H4: raterun.Runner under a controller script (DESIGN §3, C18). Instrumented.

func h4Main(env *Env, c *H4Cfg, sh *h4Shared) {
	var scheds []raterun.Schedule
	for _, s := range c.Schedules {
		scheds = append(scheds, raterun.Schedule{StartDelay: time.Duration(s.DelayNs), Frequency: time.Duration(s.FreqNs)})
	}
	fn := func(freq time.Duration) {
		inv := &h4Inv{Freq: int64(freq), BeginNs: env.Sim.Now(), BeginSeq: env.Sim.Step()}
		sh.invs = append(sh.invs, inv)
		sh.executing++
		env.Log("fn-begin", int64(freq), 0, "")
		d := int64(0)
		if len(c.FnNs) > 0 {
			d = c.FnNs[(len(sh.invs)-1)%len(c.FnNs)]
		}
		if d > 0 {
			time.Sleep(time.Duration(d))
		}
		sh.executing--
		inv.EndNs, inv.EndSeq, inv.Ended = env.Sim.Now(), env.Sim.Step(), true
		env.Log("fn-end", int64(freq), 0, "")
	}
	sh.newNs = env.Sim.Now()
	r, err := raterun.New(fn, scheds)
	if err != nil {
		sh.newErr = err.Error()
		return
	}
	ctx, cancel := context.WithCancel(context.Background())
	defer cancel()
	if c.PreStartNs > 0 {
		time.Sleep(time.Duration(c.PreStartNs))
	}
	sh.startNs, sh.startSeq = env.Sim.Now(), env.Sim.Step()
	env.Log("start-call", 0, 0, "")
	r.Start(ctx)
	env.Log("start-returned", 0, 0, "")
	for _, op := range c.Ops {
		if op.AfterNs > 0 {
			time.Sleep(time.Duration(op.AfterNs))
		}
		switch op.Kind {
		case "restart":
			rec := h4OpRec{Kind: "restart", CallNs: env.Sim.Now(), CallSeq: env.Sim.Step()}
			env.Log("restart-call", 0, 0, "")
			r.Restart()
			rec.RetNs, rec.RetSeq = env.Sim.Now(), env.Sim.Step()
			sh.ops = append(sh.ops, rec)
		case "cancel":
			rec := h4OpRec{Kind: "cancel", CallNs: env.Sim.Now(), CallSeq: env.Sim.Step()}
			env.Log("cancel-call", 0, 0, "")
			cancel()
			rec.RetNs, rec.RetSeq = env.Sim.Now(), env.Sim.Step()
			sh.ops = append(sh.ops, rec)
		case "stop":
			rec := h4OpRec{Kind: "stop", CallNs: env.Sim.Now(), CallSeq: env.Sim.Step()}
			env.Log("stop-call", 0, 0, "")
			r.Stop()
			rec.RetNs, rec.RetSeq = env.Sim.Now(), env.Sim.Step()
			rec.ExecutingAtRet = sh.executing
			sh.ops = append(sh.ops, rec)
			env.Log("stop-returned", int64(sh.executing), 0, "")
		}
	}
	env.Sim.Quiesce() // liveness is judged after faults (adversarial schedules and select orders) have stopped
	time.Sleep(time.Duration(c.FlushNs))
	sh.leftover = leftoverF1(env.PreIDs)
	sh.finished = true
}
