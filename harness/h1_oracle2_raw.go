package verifharness

import (
	"fmt"
	"math"
	"os"
	"regexp"
	"strconv"
	"strings"
	"time"

	"github.com/form3tech-oss/f1/v2/internal/progress"
	"github.com/form3tech-oss/f1/v2/internal/verifsim/simrt"
)

func writeTempYAML(content string) (string, error) {
	// in the worker's own working directory (the scratch directory of this check, removed when the check ends), so
	// that nothing is left behind when a worker is killed or crashes; the system temp directory only as a fallback
	f, err := os.CreateTemp(".", "f1verif-cfg-*.yaml")
	if err != nil {
		f, err = os.CreateTemp("", "f1verif-cfg-*.yaml")
	}
	if err != nil {
		return "", err
	}
	defer f.Close()
	if _, err := f.WriteString(content); err != nil {
		return "", err
	}
	return f.Name(), nil
}

func removeTemp(p string) { os.Remove(p) }

var (
	reStarted  = regexp.MustCompile(`(\d+) iterations started in`)
	reSucc     = regexp.MustCompile(`Successful Iterations: (\d+) \(([0-9.]+|NaN|\+Inf)%`)
	reFail     = regexp.MustCompile(`Failed Iterations: (\d+) \(([0-9.]+|NaN|\+Inf)%`)
	reDrop     = regexp.MustCompile(`Dropped Iterations: (\d+) \(([0-9.]+|NaN|\+Inf)%`)
	reProgRate = regexp.MustCompile(`\((\d+)/s\)`)
	reProg     = regexp.MustCompile(`✔\s+(\d+)\s+(?:⦸\s+(\d+)\s+)?✘\s+(\d+)`)
)

func h1OraclesMore(env *Env, c *H1Cfg, st *h1State, hr *h1Run, runIdx int, stats simrt.Stats,
	timedOut, allEnded bool, passN, failN uint64, setupFail bool,
) {
	g := hr.GT
	quiet := !timedOut && allEnded && hr.HaveResult

	// ---- C16: metrics -------------------------------------------------------------------------------
	if hr.GatherErr != "" {
		env.Violate("C16", "gather-error", "metrics/gather", "Gather failed: %s", hr.GatherErr)
	} else if quiet || (!timedOut && allEnded && hr.HaveCounts) {
		setupSeries := 0
		for _, s := range hr.Gathered {
			if s.Labels["test"] != g.Scenario {
				env.Violate("C16", "stale-series", "metrics/"+s.Family, "series of %q still exported after run of %q (%s %v count %d)", s.Labels["test"], g.Scenario, s.Family, s.Labels, s.Count)
				continue
			}
			for _, kv := range c.StaticLabels {
				if s.Labels[kv[0]] != kv[1] {
					env.Violate("C16", "static-label-mismatch", "metrics/"+s.Family, "series %s %v: static label %s should be %q", s.Family, s.Labels, kv[0], kv[1])
				}
			}
			env.Hit("h1.metric_series_checked")
			if s.Family == "form3_loadtest_setup" {
				setupSeries++
				wantRes := "success"
				if setupFail {
					wantRes = "fail"
				}
				if s.Count != 1 || s.Labels["result"] != wantRes {
					env.Violate("C16", "setup-metric-wrong", "metrics/setup", "setup metric: %d samples labelled %q, expected 1 labelled %q", s.Count, s.Labels["result"], wantRes)
				}
			}
		}
		if setupSeries != 1 {
			env.Violate("C16", "setup-metric-wrong", "metrics/setup", "%d setup series after the run, expected exactly 1", setupSeries)
		}
		if c.Metrics {
			m := iterationCounts(hr.Gathered, g.Scenario)
			if m["success"] != hr.Snap.Succ || m["fail"] != hr.Snap.Fail || m["dropped"] != hr.Snap.Drop {
				env.Violate("C16", "iteration-metric-count", "metrics/iteration", "iteration metric samples %v, result: successful %d failed %d dropped %d", m, hr.Snap.Succ, hr.Snap.Fail, hr.Snap.Drop)
			}
			if m["success"] != passN || m["fail"] != failN {
				env.Violate("C16", "iteration-metric-count", "metrics/iteration", "iteration metric samples %v, ground truth: passed %d failed %d", m, passN, failN)
			}
		}
		if runIdx > 0 {
			env.Hit("h1.metrics_consecutive_run_checked")
		}
	} else {
		env.PrecondNotMet("C16")
	}

	// ---- C17: measurement -----------------------------------------------------------------------------
	if quiet && len(g.Bodies) > 0 {
		var es [2][]int64
		var cleanupSum int64
		for _, b := range g.Bodies {
			k := 0
			if b.PlannedFail {
				k = 1
			}
			es[k] = append(es[k], b.ElapsedNs)
			for _, cp := range b.Plan.Cleanups {
				cleanupSum += cp.SleepNs
			}
		}
		stallBudget := int64(stats.Stalls) * (int64(max(env.SimCfg.StallMaxMs, 0))*ms + ms)
		snap, _ := hr.SnapFull.(progress.Snapshot)
		figs := [2]progress.IterationDurationsSnapshot{snap.SuccessfulIterationDurations, snap.FailedIterationDurations}
		names := [2]string{"successful", "failed"}
		for k := 0; k < 2; k++ {
			ref := figures(es[k])
			if len(es[k]) == 0 || figs[k].Count != ref.Count {
				continue
			}
			// count and sum are atomic additions and exact under any interleaving; minimum and maximum are updated by
			// load-compare-store ("we prefer performance over perfect correctness" in f1's own words) and C17 states them
			// for sequential recording: they are compared when one worker records
			seq := c.Concurrency == 1
			if (seq && (int64(figs[k].Min) < int64(ref.Min) || int64(figs[k].Max) < int64(ref.Max))) || int64(figs[k].Average) < int64(ref.Average) {
				env.Violate("C17", "duration-shorter-than-body", "measure/"+names[k], "%s durations min/avg/max %v/%v/%v are below the bodies' own clocks %v/%v/%v",
					names[k], figs[k].Min, figs[k].Average, figs[k].Max, ref.Min, ref.Average, ref.Max)
			}
			if (seq && (int64(figs[k].Max) > int64(ref.Max)+stallBudget || int64(figs[k].Min) > int64(ref.Min)+stallBudget)) || int64(figs[k].Average) > int64(ref.Average)+stallBudget {
				env.Violate("C17", "duration-includes-more-than-body", "measure/"+names[k], "%s durations min/avg/max %v/%v/%v exceed the bodies' own clocks %v/%v/%v (cleanups sleep %s in total, injected stalls %s)",
					names[k], figs[k].Min, figs[k].Average, figs[k].Max, ref.Min, ref.Average, ref.Max, dur(cleanupSum), dur(stallBudget))
			}
			env.Hit("h1.durations_checked")
		}
		if c.Metrics {
			for k, res := range []string{"success", "fail"} {
				var sum float64
				var cnt uint64
				for _, s := range hr.Gathered {
					if s.Family == "form3_loadtest_iteration" && s.Labels["stage"] == "iteration" && s.Labels["result"] == res && s.Labels["test"] == g.Scenario {
						sum, cnt = s.Sum, s.Count
					}
				}
				var want int64
				for _, e := range es[k] {
					want += e
				}
				if cnt != uint64(len(es[k])) || cnt == 0 {
					continue
				}
				if sum < float64(want) || sum > float64(want+stallBudget*int64(cnt)) {
					env.Violate("C17", "metric-duration-sum", "measure/metric-"+res, "metric sample_sum %.0f ns for %d %s iterations; bodies' own clocks total %d ns (cleanups %s, stalls %s)",
						sum, cnt, res, want, dur(cleanupSum), dur(stallBudget))
				}
			}
		}
	}

	// ---- C19: output ----------------------------------------------------------------------------------
	h1Output(env, c, hr, stats, timedOut, allEnded)

	// ---- C20: combined scenarios ------------------------------------------------------------------------
	if len(c.Prog.Components) > 0 {
		h1Combined(env, c, hr, quiet, failN)
	}

	// ---- C09 / C02 whole-run cross-check: exact tick accounting -------------------------------------------
	if c.TickNs > 0 && hr.HaveResult && !setupFail && c.MaxIterations == 0 && stats.Stalls == 0 && c.CancelAtStep == 0 && c.SlowOutputNs == 0 {
		limit := c.MaxDurationNs - 10*ms
		if g.Cancelled && g.CancelNs-g.SetupEndNs < limit {
			limit = g.CancelNs - g.SetupEndNs
		}
		if limit >= 0 && limit%c.TickNs != 0 {
			ticks := uint64(1 + limit/c.TickNs)
			if g.Cancelled && g.CancelNs <= g.SetupEndNs {
				ticks = 0
			}
			want := ticks * uint64(c.TickRate)
			got := uint64(len(g.Bodies)) + hr.Snap.Drop
			if got != want {
				cls := "requests-lost"
				if got > want {
					cls = "requests-created"
				}
				for _, p := range []string{"C09", "C02"} {
					env.Violate(p, cls, "run/constant", "rate %d every %s for %s: %d ticks request %d iterations, but started %d + dropped %d = %d",
						c.TickRate, dur(c.TickNs), dur(limit), ticks, want, len(g.Bodies), hr.Snap.Drop, got)
				}
			}
			env.Hit("h1.exact_ticks_checked")
		}
	}
}

func h1Output(env *Env, c *H1Cfg, hr *h1Run, stats simrt.Stats, timedOut, allEnded bool) {
	g := hr.GT
	rec := hr.Rec
	if !hr.HaveResult {
		env.PrecondNotMet("C19")
		return
	}
	if c.OutputFailAtNs > 0 {
		env.PrecondNotMet("C19") // the terminal went away: what reached it is not judged
		return
	}
	printing := c.Interactive && !c.Verbose
	total := hr.Snap.Succ + hr.Snap.Fail + hr.Snap.Drop
	// final summary is rendered from the result as it is when Do returns; counts are final if nothing is still running
	stable := !timedOut && allEnded
	if !printing {
		var sum *LogRec
		for i := len(rec.Logs) - 1; i >= 0; i-- {
			if rec.Logs[i].Msg == "Load Test Passed" || rec.Logs[i].Msg == "Load Test Failed" {
				sum = &rec.Logs[i]
				break
			}
		}
		if sum == nil {
			env.Violate("C19", "summary-missing", "output/structured", "no final summary record was logged")
		} else if stable {
			want := map[string]uint64{"started": hr.Snap.Succ + hr.Snap.Fail, "successful": hr.Snap.Succ, "failed": hr.Snap.Fail, "dropped": hr.Snap.Drop}
			if want["started"] == 0 {
				want["started"] = total
			}
			for k, w := range want {
				if sum.Attrs["iteration_stats."+k] != strconv.FormatUint(w, 10) {
					env.Violate("C19", "summary-count-mismatch", "output/structured", "summary record says %s=%s, result has %d (record %v)", k, sum.Attrs["iteration_stats."+k], w, sum.Attrs)
				}
			}
			if (sum.Msg == "Load Test Failed") != hr.Failed {
				env.Violate("C19", "banner-mismatch", "output/structured", "summary record %q but result failed=%v", sum.Msg, hr.Failed)
			}
			if hr.ErrStr != "" && hr.Failed && sum.Attrs["error"] != hr.ErrStr {
				env.Violate("C19", "summary-error-mismatch", "output/structured", "summary record error %q, result error %q", sum.Attrs["error"], hr.ErrStr)
			}
			env.Hit("h1.summary_checked")
		}
	} else {
		var text string
		for _, p := range rec.Out {
			if strings.Contains(p.Text, "Load Test Passed") || strings.Contains(p.Text, "Load Test Failed") {
				text = p.Text
			}
		}
		if text == "" {
			env.Violate("C19", "summary-missing", "output/text", "no final summary was printed")
		} else if stable {
			if strings.Contains(text, "Load Test Failed") != hr.Failed {
				env.Violate("C19", "banner-mismatch", "output/text", "summary banner does not match result failed=%v: %q", hr.Failed, truncate(text, 300))
			}
			if m := reStarted.FindStringSubmatch(text); m == nil || m[1] != strconv.FormatUint(hr.Snap.Succ+hr.Snap.Fail, 10) {
				env.Violate("C19", "summary-count-mismatch", "output/text", "summary 'iterations started' does not state %d: %q", hr.Snap.Succ+hr.Snap.Fail, truncate(text, 300))
			}
			for _, it := range []struct {
				re   *regexp.Regexp
				n    uint64
				name string
			}{{reSucc, hr.Snap.Succ, "Successful"}, {reFail, hr.Snap.Fail, "Failed"}, {reDrop, hr.Snap.Drop, "Dropped"}} {
				m := it.re.FindStringSubmatch(text)
				if it.n == 0 {
					if m != nil {
						env.Violate("C19", "summary-count-mismatch", "output/text", "summary shows a %s line (%s) although the count is 0", it.name, m[0])
					}
					continue
				}
				if m == nil || m[1] != strconv.FormatUint(it.n, 10) {
					env.Violate("C19", "summary-count-mismatch", "output/text", "summary %s iterations line does not state %d: %q", it.name, it.n, truncate(text, 400))
					continue
				}
				wantPct := fmt.Sprintf("%0.2f", 100.0*float64(it.n)/float64(total))
				if m[2] != wantPct {
					env.Violate("C19", "summary-percent-mismatch", "output/text", "summary %s percentage %s%%, expected %s%% (%d of %d)", it.name, m[2], wantPct, it.n, total)
				}
			}
			if hr.ErrStr != "" && !strings.Contains(text, hr.ErrStr) {
				env.Violate("C19", "summary-error-mismatch", "output/text", "summary does not state the error %q", hr.ErrStr)
			}
			env.Hit("h1.summary_checked")
		}
	}
	// every message is printed exactly once and whole: one banner, one teardown line, one summary
	if printing && stats.Stalls == 0 {
		count := func(sub string) int {
			n := 0
			for _, p := range rec.Out {
				n += strings.Count(p.Text, sub)
			}
			return n
		}
		for _, it := range []struct {
			sub  string
			want int
		}{{"F1 Load Tester", 1}, {"[Teardown]", 1}, {"Load Test Passed", -1}, {"Full logs:", 1}} {
			n := count(it.sub)
			if it.want == -1 {
				n += count("Load Test Failed")
				it.want = 1
			}
			if n != it.want {
				env.Violate("C19", "message-lost-or-duplicated", "output/text", "%q appears %d times in the printed output, expected %d", it.sub, n, it.want)
			}
		}
		// a printed chunk is one whole line group handed to the terminal in one piece: it ends in a newline, its bytes
		// do not change while the terminal is still writing it, and no message of the run is printed twice
		seen := map[string]bool{}
		for _, p := range rec.Out {
			if p.Was != "" {
				env.Violate("C19", "output-changed-while-written", "output/text", "the bytes handed to the terminal changed while they were being written: %q became %q", truncate(p.Was, 160), truncate(p.Text, 160))
				break
			}
			if !strings.HasSuffix(p.Text, "\n") {
				env.Violate("C19", "output-torn", "output/text", "printed chunk does not end in a newline: %q", truncate(p.Text, 200))
				break
			}
			if seen[p.Text] && strings.TrimSpace(p.Text) != "" {
				env.Violate("C19", "message-lost-or-duplicated", "output/text", "the same chunk was printed twice: %q", truncate(p.Text, 200))
				break
			}
			seen[p.Text] = true
		}
		env.Hit("h1.printed_messages_checked")
	}
	// progress lines
	type pl struct {
		seq       uint64
		s, f, d   uint64
		text      string
		structure bool
	}
	var lines []pl
	for _, l := range rec.Logs {
		if l.Msg == "progress" {
			s, _ := strconv.ParseUint(l.Attrs["iteration_stats.successful"], 10, 64)
			f, _ := strconv.ParseUint(l.Attrs["iteration_stats.failed"], 10, 64)
			d, _ := strconv.ParseUint(l.Attrs["iteration_stats.dropped"], 10, 64)
			lines = append(lines, pl{seq: l.Seq, s: s, f: f, d: d, text: fmt.Sprint(l.Attrs), structure: true})
		}
	}
	for _, p := range rec.Out {
		if m := reProg.FindStringSubmatch(p.Text); m != nil && strings.HasPrefix(strings.TrimSpace(p.Text), "[") && !strings.Contains(p.Text, "waiting for active") {
			s, _ := strconv.ParseUint(m[1], 10, 64)
			d, _ := strconv.ParseUint(m[2], 10, 64)
			f, _ := strconv.ParseUint(m[3], 10, 64)
			lines = append(lines, pl{seq: p.Seq, s: s, f: f, d: d, text: p.Text})
		}
	}
	var prev *pl
	var prevGap int64
	for i := range lines {
		l := &lines[i]
		var endedPass, endedFail uint64
		for _, b := range g.Bodies {
			if b.Ended && b.EndSeq <= l.seq {
				if b.PlannedFail {
					endedFail++
				} else {
					endedPass++
				}
			}
		}
		if l.s > endedPass || l.f > endedFail {
			env.Violate("C19", "progress-count-ahead", "output/progress", "progress line states ✔%d ✘%d but only %d passing / %d failing iterations had finished (%s)", l.s, l.f, endedPass, endedFail, truncate(l.text, 200))
		}
		if prev != nil && (l.s < prev.s || l.f < prev.f || l.d < prev.d) {
			env.Violate("C19", "progress-count-decreased", "output/progress", "progress line ✔%d ⦸%d ✘%d after ✔%d ⦸%d ✘%d", l.s, l.d, l.f, prev.s, prev.d, prev.f)
		}
		if prev != nil && stats.Stalls == 0 && c.SlowOutputNs == 0 {
			var donePass, doneFail uint64
			for _, b := range g.Bodies {
				if b.Ended && b.EndSeq <= prev.seq && b.EndNs < hrTimeOfSeq(hr, l.seq) {
					if b.PlannedFail {
						doneFail++
					} else {
						donePass++
					}
				}
			}
			if l.s < donePass || l.f < doneFail {
				env.Violate("C19", "progress-count-behind", "output/progress", "progress line states ✔%d ✘%d although %d passing / %d failing iterations had finished before the previous line", l.s, l.f, donePass, doneFail)
			}
		}
		// the per-period figures of a printed line: "(N/s)" is the period's successful count per second and
		// "avg/min/max" its durations; the lifetime counts on consecutive lines give the period's count
		if !l.structure && stats.Stalls == 0 && c.SlowOutputNs < 500*ms {
			if m := reProgRate.FindStringSubmatch(l.text); m != nil {
				rate, _ := strconv.ParseUint(m[1], 10, 64)
				var prevS uint64
				gap := int64(time.Second)
				if prev != nil && !prev.structure {
					prevS = prev.s
					gap = hrTimeOfSeq(hr, l.seq) - hrTimeOfSeq(hr, prev.seq)
				}
				secs := float64(time.Duration(gap).Round(time.Second) / time.Second)
				if prev == nil || !prev.structure {
					// the period a line reports on is the progress schedule's current one; it is known to be the gap
					// to the previous line only in steady cadence (first line, or the same gap twice in a row): where
					// f1 moves to a slower schedule (after one minute) the gap is longer than either period
					steady := prev == nil || prevGap == 0 || gap == prevGap
					prevGap = gap
					if secs > 0 && gap%int64(time.Second) == 0 && steady {
						want := uint64(math.Round(float64(l.s-prevS) / secs))
						if rate != want && !(prev == nil && g.Cancelled) {
							env.Violate("C19", "progress-rate-mismatch", "output/progress", "progress line states (%d/s) but the successful count grew by %d in the %.0fs since the previous line (%s)", rate, l.s-prevS, secs, truncate(l.text, 200))
						}
					}
					if l.s == prevS && !strings.Contains(l.text, "avg: 0s, min: 0s, max: 0s") {
						env.Violate("C19", "progress-period-stats", "output/progress", "no iteration succeeded in the period but the line states durations: %s", truncate(l.text, 200))
					}
				}
			}
		}
		prev = l
		env.Hit("h1.progress_lines_checked")
	}
}

// hrTimeOfSeq returns the simulated time of the log/print record with the given seq (MaxInt64 if unknown).
func hrTimeOfSeq(hr *h1Run, seq uint64) int64 {
	for _, l := range hr.Rec.Logs {
		if l.Seq == seq {
			return l.T
		}
	}
	for _, l := range hr.Rec.Out {
		if l.Seq == seq {
			return l.T
		}
	}
	return math.MaxInt64
}

func h1Combined(env *Env, c *H1Cfg, hr *h1Run, quiet bool, failN uint64) {
	g := hr.GT
	comps := c.Prog.Components
	// setup
	var setups []compEvent
	for _, e := range g.CompEvents {
		if e.Kind == "setup" {
			setups = append(setups, e)
		}
	}
	wantSetups := len(comps)
	if k := setupStopComponent(c); k >= 0 {
		wantSetups = k + 1
	}
	if g.SetupCalls == 1 {
		if len(setups) != wantSetups {
			env.Violate("C20", "component-setup-count", "combined/setup", "%d component setups ran, expected %d of %d", len(setups), wantSetups, len(comps))
		}
		for i, e := range setups {
			if e.Comp != i {
				env.Violate("C20", "component-setup-order", "combined/setup", "component setups ran in order %v", compOrder(setups))
				break
			}
			if e.Handle != g.SetupHandle || e.Iter != "setup" {
				env.Violate("C20", "component-setup-handle", "combined/setup", "component %d setup got handle %d/%q, the scenario setup handle is %d", e.Comp, e.Handle, e.Iter, g.SetupHandle)
			}
		}
	}
	// iterations: replay the components' per-invocation behaviours in execution order
	stopsAt := map[*bodyRec]int{}
	byKey := map[string]*bodyRec{}
	for _, b := range g.Bodies {
		byKey[fmt.Sprintf("%d/%s", b.Handle, b.Iter)] = b
	}
	for _, e := range g.CompEvents {
		if e.Kind != "iter" {
			continue
		}
		b := byKey[fmt.Sprintf("%d/%s", e.Handle, e.Iter)]
		if b == nil {
			env.Violate("C20", "component-foreign-handle", "combined/iter", "component %d invoked with handle %d iteration %q that no iteration owns", e.Comp, e.Handle, e.Iter)
			continue
		}
		beh := bPass
		if n := len(comps[e.Comp].IterBehav); n > 0 {
			beh = comps[e.Comp].IterBehav[e.Inv%n]
		}
		if behavStops(beh) {
			if _, ok := stopsAt[b]; !ok {
				stopsAt[b] = e.Comp
			}
		}
	}
	for _, b := range g.Bodies {
		if !b.Ended {
			continue
		}
		want := len(comps)
		if k, ok := stopsAt[b]; ok {
			want = k + 1
		}
		ok := len(b.CompRan) == want
		for i := 0; ok && i < len(b.CompRan); i++ {
			ok = b.CompRan[i] == i
		}
		if !ok {
			env.Violate("C20", "component-iteration-order", "combined/iter", "iteration %s ran components %v, expected 0..%d in order", b.Iter, b.CompRan, want-1)
		}
		env.Hit("h1.combined_iterations")
	}
	if quiet && hr.Snap.Fail != failN {
		env.Violate("C20", "combined-misclassified", "combined/iter", "result reports %d failed iterations; %d iterations contained a failing component", hr.Snap.Fail, failN)
	}
}

func compOrder(es []compEvent) []int {
	var o []int
	for _, e := range es {
		o = append(o, e.Comp)
	}
	return o
}
