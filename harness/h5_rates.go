//go:build !noh5

package verifharness

import (
	"context"
	"log/slog"
	"time"

	"github.com/prometheus/client_golang/prometheus"

	"github.com/form3tech-oss/f1/v2/internal/log"
	"github.com/form3tech-oss/f1/v2/internal/metrics"
	"github.com/form3tech-oss/f1/v2/internal/options"
	"github.com/form3tech-oss/f1/v2/internal/progress"
	"github.com/form3tech-oss/f1/v2/internal/trigger/api"
	"github.com/form3tech-oss/f1/v2/internal/ui"
	"github.com/form3tech-oss/f1/v2/internal/verifsim/simrt"
	"github.com/form3tech-oss/f1/v2/internal/workers"
	"github.com/form3tech-oss/f1/v2/pkg/f1/scenarios"
	f1t "github.com/form3tech-oss/f1/v2/pkg/f1/testing"
)

// H5: rate shapes composed as the builders compose them, evaluated by the real ticking loop
// (api.NewIterationWorker) over a real pool on the simulated clock (DESIGN §3; C09–C13). Instrumented.

func h5Main(env *Env, c *H5Cfg, sh *h5Shared) {
	if c.StartOffsetNs > 0 {
		time.Sleep(time.Duration(c.StartOffsetNs))
	}
	rates, err := h5Build(env, c, sh)
	if err != nil {
		sh.buildErr = err.Error()
		return
	}
	sh.iterDurNs = int64(rates.IterationDuration)
	sh.ratesDurNs = int64(rates.Duration)
	var twin *api.Rates
	if c.Jitter > 0 && c.Kind != "jitter" && c.Kind != "dist" && c.Kind != "constant" {
		// the same profile without jitter, evaluated at the same instants: the reference for C13
		plain := *c
		plain.Jitter = 0
		twin, err = h5Build(env, &plain, sh)
		if err != nil {
			sh.buildErr = err.Error()
			return
		}
	}
	if c.ViaBuilder && twin == nil {
		plain := *c
		plain.ViaBuilder = false
		twin, err = h5Build(env, &plain, sh)
		if err != nil {
			sh.buildErr = err.Error()
			return
		}
		sh.ratesDurNs = int64(twin.Duration) // (the builder's trigger duration is the run's max duration for open-ended profiles)
		if c.Kind == "staged" {              // (the ramp builder reports no duration of its own: the run's max duration bounds it)
			sh.ratesDurNs = int64(rates.Duration)
		}
	}
	wrapped := func(t time.Time) int {
		if k := len(sh.outer); k >= 1 && len(c.EvalSleepNs) > 0 {
			// a slow evaluation (a blocked callee): the tick is handled late, later ticks are overdue
			if d := c.EvalSleepNs[k%len(c.EvalSleepNs)]; d > 0 {
				time.Sleep(time.Duration(d))
			}
		}
		v := rates.Rate(t)
		sh.logOuter(env, t, v)
		if twin != nil {
			sh.logInner(env, t, twin.Rate(t))
		}
		return v
	}
	if c.PureTicks > 0 {
		// long horizon: the distribution wrappers do not look at the clock, so millions of consecutive
		// sub-ticks are evaluated back to back (no ticker, no scheduling points) and checked cycle by cycle
		sh.trigStartNs = env.Sim.Now()
		simrt.Atomic(func() { h5PureLoop(env, c, sh, rates.Rate) })
		sh.trigEndNs = env.Sim.Now()
		sh.finished = true
		return
	}
	if c.Direct {
		// large rates: the pool would spend the whole step budget executing (or dropping) requests, so the
		// rate function is evaluated by a plain ticker loop of the same shape as api.NewIterationWorker
		sh.trigStartNs = env.Sim.Now()
		wrapped(time.Now())
		tk := time.NewTicker(rates.IterationDuration)
		defer tk.Stop()
		end := time.NewTimer(time.Duration(c.RunNs))
		defer end.Stop()
		for {
			select {
			case <-end.C:
				sh.trigEndNs = env.Sim.Now()
				sh.finished = true
				return
			case start := <-tk.C:
				wrapped(start)
			}
		}
	}
	st := &progress.Stats{}
	rec := NewRecorder(env.Sim)
	logger := slog.New(rec.Handler())
	m := metrics.NewInstance(prometheus.NewRegistry(), false, nil)
	body := func(t *f1t.T) {
		d := sh.beginBody(c, env.Sim.Now())
		if d > 0 {
			time.Sleep(time.Duration(d))
		}
	}
	scen := &scenarios.Scenario{Name: "h5", ScenarioFn: func(*f1t.T) f1t.RunFn { return body }}
	as := workers.NewActiveScenario(scen, m, st, logger, log.NewSlogLogrusLogger(logger))
	as.Setup()
	pm := workers.New(0, as)
	doWork := api.NewIterationWorker(rates.IterationDuration, wrapped)
	ctx, cancel := context.WithTimeout(context.Background(), time.Duration(c.RunNs))
	defer cancel()
	sh.trigStartNs = env.Sim.Now()
	env.Log("trigger-start", 0, 0, c.Kind)
	doWork(ctx, ui.NewDiscardOutput(), pm, options.RunOptions{Concurrency: c.Concurrency})
	sh.trigEndNs = env.Sim.Now()
	<-pm.WaitForCompletion()
	tot := st.Total()
	sh.dropped = tot.DroppedIterationCount
	sh.recorded = tot.SuccessfulIterationDurations.Count + tot.FailedIterationDurations.Count
	sh.finished = true
}
