package verifharness

import (
	"errors"
	"net/url"
	"time"

	"github.com/form3tech-oss/f1/v2/pkg/f1"
	f1t "github.com/form3tech-oss/f1/v2/pkg/f1/testing"
)

// The generated scenario program: user code is the environment of f1. This file is instrumented.

type scenRT struct {
	env *Env
	cfg *H1Cfg
	g   *runGT
	st  *h1State
	run f1t.RunFn // combined scenarios
}

var errPlanned = errors.New("harness-planned-failure")

// badError is an error value that cannot be rendered.
type badError struct{}

func (badError) Error() string { panic("harness: Error() of the panic value panics") }

func behave(t *f1t.T, b int) {
	switch b {
	case bPass:
	case bFail:
		t.Fail()
	case bFailNow:
		t.FailNow()
	case bError:
		t.Error(errPlanned)
	case bErrorf:
		t.Errorf("planned failure %d", 1)
	case bFatal:
		t.Fatal(errPlanned)
	case bFatalf:
		t.Fatalf("planned failure %d", 2)
	case bRequire:
		t.Require().True(false, "planned assertion failure")
	case bPanicErr:
		panic(errors.New("harness-planned-panic"))
	case bPanicStr:
		panic("harness-planned-panic")
	case bPanicStruct:
		panic(plannedPanic{Marker: "harness-planned-panic"})
	case bPanicNil:
		var v any
		panic(v)
	case bNilMap:
		var m map[string]int
		m["harness-planned-panic"] = 1
	case bIndex:
		var s []int
		i := len(s) + 3
		_ = s[i]
	case bPanicSlice:
		panic([]string{"harness-planned-panic"})
	case bPanicMap:
		panic(map[string]int{"harness-planned-panic": 1})
	case bPanicNilStringer:
		var u *url.URL
		panic(u)
	case bPanicBadError:
		panic(badError{})
	case bPanicFunc:
		panic(func() string { return "harness-planned-panic" })
	case bHelperErrorf:
		done := make(chan struct{})
		go func() {
			defer close(done)
			t.Errorf("planned failure from helper goroutine")
		}()
		<-done
	}
}

func (rt *scenRT) scenarioFn(t *f1t.T) f1t.RunFn {
	g := rt.g
	p := &rt.cfg.Prog
	g.SetupCalls++
	g.SetupBeginNs, g.SetupBeginSeq = rt.env.Sim.Now(), rt.env.Sim.Step()
	g.SetupHandle = g.handleOf(t)
	rt.env.Log("setup-begin", int64(g.SetupHandle), 0, t.Iteration)
	defer func() {
		g.SetupEnded = true
		g.SetupEndNs, g.SetupEndSeq = rt.env.Sim.Now(), rt.env.Sim.Step()
		rt.env.Log("setup-end", 0, 0, "")
	}()
	if !p.SetupRegLate {
		rt.regSetupCleanups(t)
	}
	if p.SetupSleepNs > 0 {
		time.Sleep(time.Duration(p.SetupSleepNs))
	}
	if len(p.Components) > 0 {
		if rt.st.combined == nil {
			// combined once, like a scenario value registered at program start and set up by every run
			var fns []f1t.ScenarioFn
			for i := range p.Components {
				idx := i
				fns = append(fns, func(t *f1t.T) f1t.RunFn { return rt.st.cur.componentFn(idx)(t) })
			}
			rt.st.combined = f1.CombineScenarios(fns...)
		}
		rt.run = rt.st.combined(t)
	}
	behave(t, p.SetupBehav)
	if p.SetupLateErrorNs > 0 {
		d := p.SetupLateErrorNs
		go func() {
			time.Sleep(time.Duration(d))
			t.Errorf("late report on the setup handle from a goroutine setup left behind")
		}()
	}
	if p.SetupRegLate {
		rt.regSetupCleanups(t)
	}
	return rt.body
}

func (rt *scenRT) regSetupCleanups(t *f1t.T) {
	g := rt.g
	for i := range rt.cfg.Prog.SetupCleanups {
		cp := rt.cfg.Prog.SetupCleanups[i]
		idx := i
		g.SetupRegs = append(g.SetupRegs, idx)
		t.Cleanup(func() {
			g.SetupCleanRuns = append(g.SetupCleanRuns, cleanupRun{Idx: idx, Seq: rt.env.Sim.Step(), T: rt.env.Sim.Now()})
			rt.env.Log("setup-cleanup", int64(idx), 0, "")
			if cp.SleepNs > 0 {
				time.Sleep(time.Duration(cp.SleepNs))
			}
			behave(t, cp.Behav)
		})
	}
}

func (rt *scenRT) componentFn(i int) f1t.ScenarioFn {
	return func(t *f1t.T) f1t.RunFn {
		g := rt.g
		cp := rt.cfg.Prog.Components[i]
		g.CompEvents = append(g.CompEvents, compEvent{Kind: "setup", Comp: i, Handle: g.handleOf(t), Iter: t.Iteration, Seq: rt.env.Sim.Step()})
		behave(t, cp.SetupBehav)
		return func(t *f1t.T) {
			inv := g.compInv[i]
			g.compInv[i]++
			g.CompEvents = append(g.CompEvents, compEvent{Kind: "iter", Comp: i, Handle: g.handleOf(t), Iter: t.Iteration, Seq: rt.env.Sim.Step(), Inv: inv})
			if rec := g.live[t]; rec != nil {
				rec.CompRan = append(rec.CompRan, i)
			}
			b := bPass
			if len(cp.IterBehav) > 0 {
				b = cp.IterBehav[inv%len(cp.IterBehav)]
			}
			if behavFails(b) {
				if rec := g.live[t]; rec != nil {
					rec.PlannedFail = true
				}
			}
			if cp.InTime {
				t.Time("component", func() { behave(t, b) })
			} else {
				behave(t, b)
			}
		}
	}
}

func (rt *scenRT) body(t *f1t.T) {
	rec := rt.begin(t)
	start := time.Now()
	defer func() {
		rt.end(t, rec, int64(time.Since(start)))
	}()
	plan := rec.Plan
	if !plan.CleanupsLate {
		rt.regCleanups(t, rec)
	}
	if rt.cfg.Prog.Rendezvous > 0 {
		rt.rendezvous(rec)
	}
	if plan.RacyHelper {
		// the body hands an error report to a helper goroutine and returns without waiting for it
		done := make(chan struct{})
		go func() {
			<-done
			t.Errorf("report from a helper goroutine the body did not wait for")
		}()
		defer close(done)
	}
	if plan.SleepNs > 0 {
		time.Sleep(time.Duration(plan.SleepNs))
	}
	if plan.CleanupsLate {
		rt.regCleanups(t, rec)
	}
	if rt.run != nil {
		rt.run(t)
		return
	}
	if plan.InTimeStage {
		t.Time(plan.stageName(), func() { behave(t, plan.Behav) })
	} else {
		behave(t, plan.Behav)
	}
	if plan.LateHelperNs > 0 {
		// a helper goroutine the body forgot: it reports an error on the handle after its iteration is over
		d := plan.LateHelperNs
		go func() {
			time.Sleep(time.Duration(d))
			t.Errorf("late report from a helper goroutine of an iteration that is over")
		}()
	}
	if plan.After > 0 {
		time.Sleep(time.Duration(plan.After))
	}
}

func (rt *scenRT) regCleanups(t *f1t.T, rec *bodyRec) {
	for i := range rec.Plan.Cleanups {
		cp := rec.Plan.Cleanups[i]
		idx := i
		rec.Registered = append(rec.Registered, idx)
		t.Cleanup(func() {
			rec.CleanupRuns = append(rec.CleanupRuns, cleanupRun{Idx: idx, Seq: rt.env.Sim.Step(), T: rt.env.Sim.Now()})
			rt.env.Log("iter-cleanup", int64(rec.Idx), int64(idx), rec.Iter)
			if cp.SleepNs > 0 {
				time.Sleep(time.Duration(cp.SleepNs))
			}
			behave(t, cp.Behav)
		})
	}
}

// rendezvous blocks the body until cfg.Prog.Rendezvous bodies overlap (or a timeout expires): the
// lower-bound half of C04.
func (rt *scenRT) rendezvous(rec *bodyRec) {
	g := rt.g
	if g.rdvDone {
		rec.RdvOK = true
		return
	}
	if g.rdvCh == nil {
		g.rdvCh = make(chan struct{})
	}
	g.rdvCount++
	if g.rdvCount >= rt.cfg.Prog.Rendezvous {
		g.rdvDone = true
		g.RdvReached = true
		close(g.rdvCh)
		rec.RdvOK = true
		return
	}
	ch := g.rdvCh
	tm := time.NewTimer(time.Duration(rt.cfg.Prog.RendezvousNs))
	select {
	case <-ch:
		rec.RdvOK = true
	case <-tm.C:
		rec.RdvTimedOut = true
		g.rdvCount--
	}
	tm.Stop()
}
