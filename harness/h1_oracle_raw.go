package verifharness

import (
	"fmt"
	"math"
	"os"
	"sort"
	"strconv"
	"strings"
	"time"

	"github.com/form3tech-oss/f1/v2/internal/progress"
	"github.com/form3tech-oss/f1/v2/internal/verifsim/simrt"
)

const ms = int64(time.Millisecond)

func (h h1) NonTrivial(prop string, env *Env, st simrt.Stats) bool {
	switch prop {
	case "C04":
		return env.Cover["h1.bodies"] >= 2 && (env.Cover["h1.hwm_ge_2"] > 0 || env.Cover["h1.rendezvous_reached"] > 0)
	case "C05":
		return env.Cover["h1.do_returned"] > 0
	case "C06":
		return env.Cover["h1.cleanups_checked"] > 0 || env.Cover["h1.setup_failed"] > 0
	case "C07":
		return env.Cover["h1.failed_bodies"] > 0
	case "C08":
		return env.Cover["h1.verdict_checked"] > 0
	case "C16":
		return env.Cover["h1.metric_series_checked"] > 0
	case "C17":
		return env.Cover["h1.durations_checked"] > 0
	case "C19":
		return env.Cover["h1.summary_checked"] > 0
	case "C20":
		return env.Cover["h1.combined_iterations"] > 0
	case "C09", "C02":
		return env.Cover["h1.exact_ticks_checked"] > 0
	}
	return env.Cover["h1.bodies"] >= 2
}

func (h h1) Run(env *Env, cfg any) {
	c := cfg.(*H1Cfg)
	st := h1RunCore(env, c)
	if st == nil {
		return
	}
	stats := env.Sim.Stats()
	for i, hr := range st.Runs {
		h1Oracles(env, c.forRun(i), st, hr, i, stats)
	}
}

// h1RunCore executes the configured run(s); it returns nil when nothing can be judged.
func h1RunCore(env *Env, c *H1Cfg) *h1State {
	st := &h1State{}
	if c.Mode == "file" {
		p, err := writeTempYAML(c.FileYAML)
		if err != nil {
			env.PrecondNotMet(env.Prop)
			return nil
		}
		st.YAMLPath = p
		defer removeTemp(p)
		switch c.FilePathKind {
		case "dir": // the path opens but cannot be read
			st.YAMLPath = os.TempDir()
		case "missing":
			st.YAMLPath = p + ".does-not-exist"
		}
	}
	env.Sim.GoMain("main", func() { h1Main(env, c, st) })
	env.Sim.Run()
	stats := env.Sim.Stats()
	if !st.Finished {
		if stats.TimeCapHit {
			detail := "run did not finish within the simulated-time cap; parked tasks: " + strings.Join(stats.Blocked, "; ")
			cur := "?"
			if len(st.Runs) > 0 {
				g := st.Runs[len(st.Runs)-1].GT
				cur = fmt.Sprintf("do_called=%v do_returned=%v bodies=%d", g.DoCalledNs, g.DoReturned, len(g.Bodies))
			}
			sig := "hang/" + blockedSig(stats.Blocked)
			env.Violate("C05", "run-never-returned", sig, "%s (%s)", detail, cur)
		}
		for _, p := range append((h1{}).Props(), "C14", "C15") {
			if p != "C05" {
				env.PrecondNotMet(p)
			}
		}
		return nil
	}
	return st
}

func blockedSig(blocked []string) string {
	var sites []string
	for _, b := range blocked {
		if i := strings.Index(b, "@"); i >= 0 && strings.Contains(b, "enabled=false") {
			s := b[i+1:]
			if j := strings.Index(s, " "); j > 0 {
				s = s[:j]
			}
			sites = append(sites, s)
		}
	}
	sort.Strings(sites)
	return strings.Join(sites, ",")
}

func sumSetupCleanupSleeps(c *H1Cfg) int64 {
	var s int64
	for _, cp := range c.Prog.SetupCleanups {
		s += cp.SleepNs
	}
	return s
}

func setupPlanFails(c *H1Cfg) bool {
	if behavFails(c.Prog.SetupBehav) {
		return true
	}
	for _, cp := range c.Prog.Components {
		if behavFails(cp.SetupBehav) {
			return true
		}
		if behavStops(cp.SetupBehav) {
			break
		}
	}
	return false
}

// setupStoppedInComponents says whether a component's setup stops the whole setup (and at which one).
func setupStopComponent(c *H1Cfg) int {
	for i, cp := range c.Prog.Components {
		if behavStops(cp.SetupBehav) {
			return i
		}
	}
	return -1
}

func h1Oracles(env *Env, c *H1Cfg, st *h1State, hr *h1Run, runIdx int, stats simrt.Stats) {
	g := hr.GT
	rec := hr.Rec
	timedOut := rec.timeoutReported()
	stallBudget := int64(stats.Stalls) * (int64(max(env.SimCfg.StallMaxMs, 0))*ms + ms)
	slowBudget := c.SlowOutputNs * 40

	// ---- panics escaping f1 entry points --------------------------------------------------------
	if g.DoPanic != "" {
		owner := "C05"
		switch {
		case strings.Contains(g.DoPanic, "FailedIterationsRate") || strings.Contains(g.DoPanic, "run.(*Result).Failed"):
			owner = "C08"
		case strings.Contains(g.DoPanic, "internal/run/views") || strings.Contains(g.DoPanic, "text/template") || strings.Contains(g.DoPanic, "internal/log."):
			owner = "C19"
		case strings.HasPrefix(g.DoPanic, "trigger construction") || strings.Contains(g.DoPanic, "internal/trigger/rate.") || strings.Contains(g.DoPanic, "time.NewTicker"):
			owner = "C14"
		case strings.Contains(g.DoPanic, "harness-planned-panic"):
			owner = "C07"
		}
		if c.Input != nil {
			owner = "C14" // the scenario is trivial: only the input can have caused it
		}
		first := strings.SplitN(g.DoPanic, "\n", 2)[0]
		env.Violate(owner, "panic-escaped", "panic/"+first, "panic escaped from f1: %s", truncate(g.DoPanic, 1500))
		for _, p := range append((h1{}).Props(), "C14", "C15") {
			if p != owner {
				env.PrecondNotMet(p)
			}
		}
		return
	}
	if g.TrigErr != "" || g.NewRunErr != "" {
		if c.File != nil {
			env.PrecondNotMet("C15")
		}
		// generated configurations are meant to be valid; a rejected one judges nothing
		for _, p := range (h1{}).Props() {
			env.PrecondNotMet(p)
		}
		env.Hit("h1.trigger_rejected")
		return
	}
	env.Hit("h1.do_returned")
	env.Cover["h1.bodies"] += uint64(len(g.Bodies))
	if g.HWM >= 2 {
		env.Hit("h1.hwm_ge_2")
	}
	if g.Cancelled {
		env.Hit("fault.cancel")
	}
	if timedOut {
		env.Hit("h1.completion_timeout_expired")
	}

	setupFail := setupPlanFails(c)
	allEnded := true
	var passN, failN uint64
	for _, b := range g.Bodies {
		if !b.Ended || b.EndSeq > g.DoReturnedSeq {
			allEnded = false
		}
		if b.Ended {
			if b.PlannedFail {
				failN++
			} else {
				passN++
			}
		}
	}
	if c.RacyHelper && (hr.HaveResult || hr.HaveCounts) && passN+failN == hr.Snap.Succ+hr.Snap.Fail {
		// bodies hand an error report over to a goroutine they do not wait for: whether it lands before the iteration's
		// outcome is read is the scheduler's choice, so each such iteration may legitimately count either way. What
		// still must hold: every iteration is counted once, and the result, the exported metrics and the output agree.
		passN, failN = hr.Snap.Succ, hr.Snap.Fail
		env.Hit("h1.racy_helper_runs")
	}
	if failN > 0 {
		env.Cover["h1.failed_bodies"] += failN
	}

	// ---- C01: counts ----------------------------------------------------------------------------
	if !hr.HaveResult || timedOut || !allEnded {
		env.PrecondNotMet("C01")
	} else {
		if hr.Snap.Succ != passN || hr.Snap.Fail != failN {
			cls := "count-mismatch"
			if hr.Snap.Succ+hr.Snap.Fail < passN+failN {
				cls = "lost-count"
			} else if hr.Snap.Succ+hr.Snap.Fail > passN+failN {
				cls = "extra-count"
			}
			env.Violate("C01", cls, "run/"+c.Mode, "result reports %d successful / %d failed, but %d invocations passed and %d failed (mode %s, c=%d)",
				hr.Snap.Succ, hr.Snap.Fail, passN, failN, c.Mode, c.Concurrency)
		}
		if c.Metrics && hr.GatherErr == "" {
			ms := iterationCounts(hr.Gathered, g.Scenario)
			if ms["success"] != hr.Snap.Succ || ms["fail"] != hr.Snap.Fail || ms["dropped"] != hr.Snap.Drop {
				env.Violate("C01", "metrics-count-mismatch", "run/metrics", "iteration metric sample counts %v differ from result (succ %d fail %d dropped %d)",
					ms, hr.Snap.Succ, hr.Snap.Fail, hr.Snap.Drop)
			}
		}
		if len(g.Bodies) > 0 {
			env.Hit("h1.counts_checked")
		}
	}

	// ---- C03: limit and ids -----------------------------------------------------------------------
	{
		n := uint64(len(g.Bodies))
		if c.MaxIterations > 0 && n > c.MaxIterations {
			env.Violate("C03", "limit-exceeded", "run/"+c.Mode, "%d invocations with max-iterations %d (mode %s, c=%d)", n, c.MaxIterations, c.Mode, c.Concurrency)
		}
		seen := map[string]int{}
		for _, b := range g.Bodies {
			seen[b.Iter]++
		}
		for _, k := range sortedKeys(seen) {
			v := seen[k]
			if v > 1 {
				env.Violate("C03", "duplicate-id", "run/"+c.Mode, "iteration id %q observed by %d invocations", k, v)
			}
		}
		for i := uint64(1); i <= n; i++ {
			if seen[strconv.FormatUint(i, 10)] == 0 {
				env.Violate("C03", "id-gap", "run/"+c.Mode, "%d invocations but id %d never observed (ids: %v)", n, i, sortedKeys(seen))
				break
			}
		}
		if c.MaxIterations > 0 && reachedLimitMessage(rec) && n != c.MaxIterations && !g.Cancelled {
			env.Violate("C03", "limit-not-reached", "run/"+c.Mode, "run reports max iterations reached after %d of %d invocations", n, c.MaxIterations)
		}
		// the trigger provably out-requests the limit: users mode, not cancelled, sequential worst case fits
		if c.MaxIterations > 0 && c.Mode == "users" && !g.Cancelled && !setupFail && stats.Stalls == 0 {
			var worst int64
			for i := uint64(0); i < c.MaxIterations; i++ {
				p := c.plan(int(i))
				worst += p.SleepNs + p.After + ms
				for _, cp := range p.Cleanups {
					worst += cp.SleepNs
				}
			}
			if worst < c.MaxDurationNs-20*ms && n != c.MaxIterations {
				env.Violate("C03", "limit-not-reached", "run/users", "users mode ran %d invocations, limit %d was reachable (worst case %s < %s)", n, c.MaxIterations, dur(worst), dur(c.MaxDurationNs))
			}
			if worst < c.MaxDurationNs-20*ms {
				env.Hit("h1.limit_exactness_checked")
			}
		}
		// constant rate >= 1 per tick: a new iteration starts at least every (longest body + one tick), so the
		// limit must be reached when the run is long enough for that
		if c.MaxIterations > 0 && c.Mode == "constant" && c.TickNs > 0 && c.TickRate >= 1 && !g.Cancelled && !setupFail && stats.Stalls == 0 && c.SlowOutputNs == 0 {
			var longest int64
			for _, p := range c.Prog.Iter {
				d := p.SleepNs + p.After + ms
				for _, cp := range p.Cleanups {
					d += cp.SleepNs
				}
				longest = max(longest, d)
			}
			if int64(c.MaxIterations)*(longest+c.TickNs) < c.MaxDurationNs-20*ms-c.Prog.SetupSleepNs {
				if n != c.MaxIterations {
					env.Violate("C03", "limit-not-reached", "run/constant", "constant rate %d every %s for %s with bodies of at most %s ran %d invocations; the limit %d was reachable",
						c.TickRate, dur(c.TickNs), dur(c.MaxDurationNs), dur(longest), n, c.MaxIterations)
				}
				env.Hit("h1.limit_exactness_checked")
			}
		}
		if c.MaxIterations > 0 && n >= c.MaxIterations {
			env.Hit("h1.limit_reached")
		}
	}

	// ---- C04: concurrency bound -------------------------------------------------------------------
	if c.Mode != "file" {
		if g.HWM > c.Concurrency {
			env.Violate("C04", "too-many-in-flight", "run/"+c.Mode, "%d iterations in flight with concurrency %d (mode %s)", g.HWM, c.Concurrency, c.Mode)
		}
		for _, d := range g.DoubleHandle {
			env.Violate("C04", "handle-shared", "run/"+c.Mode, "%s", d)
		}
		if c.Prog.Rendezvous > 0 && !setupFail {
			if g.RdvReached {
				env.Hit("h1.rendezvous_reached")
			} else {
				env.Violate("C04", "full-concurrency-unreachable", "run/"+c.Mode, "never had %d overlapping iterations although work kept being requested (high-water mark %d, %d invocations)",
					c.Prog.Rendezvous, g.HWM, len(g.Bodies))
			}
		}
	}

	// ---- C05: termination ------------------------------------------------------------------------
	{
		start := g.SetupEndNs
		teardown := sumSetupCleanupSleeps(c)
		slack := 50*ms + stallBudget + slowBudget
		if setupFail || !g.SetupEnded {
			if g.SetupEnded && g.DoReturnedNs > start+teardown+slack {
				env.Violate("C05", "late-return-after-setup-failure", "run/"+c.Mode, "setup failed at %s but Do returned at %s", dur(start), dur(g.DoReturnedNs))
			}
		} else {
			limit := c.MaxDurationNs - 10*ms
			td := hr.TrigDurNs
			if td > 0 && td < c.MaxDurationNs && td < limit {
				limit = td
			}
			stop := start + limit
			if g.Cancelled && g.CancelNs < stop {
				stop = max(g.CancelNs, start)
			}
			stages := int64(strings.Count(c.FileYAML, "- ")) * 25 * ms
			deadline := stop + c.WaitTimeoutNs + teardown + slack + stages
			if g.DoReturnedNs > deadline {
				env.Violate("C05", "late-return", "run/"+c.Mode, "triggering had to stop by %s, completion timeout %s, but Do returned at %s (deadline %s; cancelled=%v timeout_reported=%v)",
					dur(stop), dur(c.WaitTimeoutNs), dur(g.DoReturnedNs), dur(deadline), g.Cancelled, timedOut)
			}
			// the max-iterations limit ends the run as well: once N iterations have started, the next request finds the
			// limit (a request comes within one tick of a worker being free; a users-mode worker asks again when its
			// body ends), after which only the in-flight iterations are waited for
			if c.MaxIterations > 0 && uint64(len(g.Bodies)) >= c.MaxIterations && stats.Stalls == 0 && c.SlowOutputNs == 0 {
				flows, maxTick, pauses := false, int64(0), int64(0)
				switch {
				case c.Mode == "users":
					flows = true
				case c.Mode == "constant" && c.TickNs > 0 && c.TickRate >= 1:
					flows, maxTick = true, c.TickNs
				case c.Mode == "file" && c.File != nil:
					flows = true
					for _, fs := range c.File.Stages {
						if fs.Mode == "users" && fs.UsersConc > 0 {
							continue
						}
						if fs.Mode == "constant" && fs.TickNs > 0 && fs.TickRate >= 1 {
							maxTick = max(maxTick, fs.TickNs)
							continue
						}
						flows = false
					}
					pauses = int64(len(c.File.Stages)) * 50 * ms
				}
				begins := make([]int64, 0, len(g.Bodies))
				var longest int64
				for _, b := range g.Bodies {
					begins = append(begins, b.BeginNs)
					if !b.Ended || len(b.CleanupRuns) < len(b.Registered) {
						flows = false
						break
					}
					end := b.EndNs
					for _, cr := range b.CleanupRuns {
						if cr.Idx >= 0 && cr.Idx < len(b.Plan.Cleanups) {
							end = max(end, cr.T+b.Plan.Cleanups[cr.Idx].SleepNs)
						}
					}
					longest = max(longest, end-b.BeginNs)
				}
				if flows {
					sort.Slice(begins, func(i, j int) bool { return begins[i] < begins[j] })
					tN := begins[c.MaxIterations-1]
					dl := tN + longest + maxTick + pauses + c.WaitTimeoutNs + teardown + slack
					if g.DoReturnedNs > dl {
						env.Violate("C05", "late-return-after-limit", "run/"+c.Mode, "iteration %d of max-iterations %d began at %s, bodies take at most %s, ticks come every %s at most, completion timeout %s: Do had to return by %s, it returned at %s",
							c.MaxIterations, c.MaxIterations, dur(tN), dur(longest), dur(maxTick), dur(c.WaitTimeoutNs), dur(dl), dur(g.DoReturnedNs))
					}
					env.Hit("h1.return_after_limit_checked")
				}
			}
			if timedOut {
				// the completion timeout may only be reported once it has really expired: the wait for in-flight
				// iterations starts when triggering stops, not before
				// (earliest possible stop: 10 ms before the shorter of max-duration and the trigger's own duration,
				// or the cancellation)
				earliest := c.MaxDurationNs
				if td > 0 && td < earliest {
					earliest = td
				}
				earliest = start + earliest - 10*ms
				if g.Cancelled && g.CancelNs < earliest {
					earliest = max(g.CancelNs, start)
				}
				// … and only while something is in flight: when the timeout expires some worker must still be busy with
				// an iteration (its body or its cleanups); workers between iterations take no simulated time
				if tm := rec.timeoutReportedAt(); tm >= 0 && stats.Stalls == 0 && c.SlowOutputNs == 0 {
					busy := false
					for _, b := range g.Bodies {
						if b.BeginNs > tm {
							continue
						}
						end := b.EndNs
						if !b.Ended || len(b.CleanupRuns) < len(b.Registered) {
							end = math.MaxInt64
						} else {
							for _, cr := range b.CleanupRuns {
								if cr.Idx >= 0 && cr.Idx < len(b.Plan.Cleanups) {
									end = max(end, cr.T+b.Plan.Cleanups[cr.Idx].SleepNs)
								}
							}
						}
						if end >= tm-ms {
							busy = true
							break
						}
					}
					if !busy {
						env.Violate("C05", "completion-timeout-with-nothing-in-flight", "run/"+c.Mode, "\"Active tests not completed\" reported at %s although every started iteration (%d) had finished, cleanups included, before that",
							dur(tm), len(g.Bodies))
					}
					env.Hit("h1.timeout_inflight_checked")
				}
				if tm := rec.timeoutReportedAt(); tm >= 0 && tm < earliest+c.WaitTimeoutNs-ms {
					env.Violate("C05", "completion-timeout-reported-early", "run/"+c.Mode, "\"Active tests not completed\" reported at %s, but triggering could not stop before %s and the completion timeout is %s",
						dur(tm), dur(earliest), dur(c.WaitTimeoutNs))
				}
			}
			// triggering that is over before it begins requests nothing (rate-driven triggers ask their context before
			// every request, the first one included; users mode since fix F18)
			if (limit <= 0 || (g.Cancelled && g.CancelSeq < g.DoCalledSeq)) && c.Mode != "file" && len(g.Bodies) > 0 {
				env.Violate("C05", "iteration-started-after-stop", "run/"+c.Mode+"/over-before-it-began", "%d iterations ran although triggering had to stop before it began (max-duration %s, cancelled before the run=%v)",
					len(g.Bodies), dur(c.MaxDurationNs), g.Cancelled && g.CancelSeq < g.DoCalledSeq)
			}
			for _, b := range g.Bodies {
				if b.BeginNs > stop+stallBudget {
					env.Violate("C05", "iteration-started-after-stop", "run/"+c.Mode, "iteration %s began at %s, after triggering had to stop at %s (cancelled=%v)", b.Iter, dur(b.BeginNs), dur(stop), g.Cancelled)
					break
				}
			}
		}
		if !timedOut {
			for _, b := range g.Bodies {
				if !b.Ended || b.EndSeq > g.DoReturnedSeq {
					env.Violate("C05", "iteration-running-after-return", "run/"+c.Mode, "Do returned (no completion timeout reported) while iteration %s was still executing", b.Iter)
					break
				}
			}
			if len(g.LeftoverAfter) > 0 {
				env.Violate("C05", "goroutine-left", "leak/"+leakSig(g.LeftoverAfter), "goroutines of the run remain after Do returned: %s", strings.Join(g.LeftoverAfter, " | "))
			}
		} else {
			for _, l := range g.LeftoverAfter {
				if !strings.Contains(l, "internal/workers.") {
					env.Violate("C05", "goroutine-left", "leak/"+leakSig([]string{l}), "goroutine remains after Do returned: %s", l)
				}
			}
		}
		if !g.Cancelled && rec.saysInterrupted() {
			env.Violate("C05", "interrupted-without-interrupt", "run/"+c.Mode, "the run reported \"Interrupted\" although nothing cancelled it and no signal was delivered to it")
		}
		if g.BodiesBegunAfterReturn > 0 && !timedOut {
			env.Violate("C05", "iteration-started-after-return", "run/"+c.Mode, "%d iterations began after Do returned", g.BodiesBegunAfterReturn)
		}
		if g.LateProgress > 0 {
			env.Violate("C05", "progress-after-return", "run/progress", "%d progress reports appeared after Do returned", g.LateProgress)
		}
	}

	// ---- C06: lifecycle ---------------------------------------------------------------------------
	{
		if g.SetupCalls != 1 {
			env.Violate("C06", "setup-count", "run/"+c.Mode, "setup ran %d times", g.SetupCalls)
		}
		for _, b := range g.Bodies {
			if !g.SetupEnded || b.BeginSeq < g.SetupEndSeq {
				env.Violate("C06", "iteration-before-setup-end", "run/"+c.Mode, "iteration %s began before setup completed", b.Iter)
				break
			}
		}
		if setupFail {
			env.Hit("h1.setup_failed")
			if len(g.Bodies) > 0 {
				env.Violate("C06", "iteration-after-failed-setup", "run/"+c.Mode, "%d iterations ran although setup failed (%s)", len(g.Bodies), behavNames[c.Prog.SetupBehav])
			}
			if hr.HaveResult && (!hr.Failed || !strings.Contains(hr.ErrStr, "setup")) {
				env.Violate("C06", "failed-setup-not-reported", "run/"+c.Mode, "setup failed (%s) but result failed=%v error=%q", behavNames[c.Prog.SetupBehav], hr.Failed, hr.ErrStr)
			}
		}
		lastEndByHandle := map[int]uint64{}
		_ = lastEndByHandle
		// per-iteration cleanups
		byHandle := map[int][]*bodyRec{}
		for _, b := range g.Bodies {
			byHandle[b.Handle] = append(byHandle[b.Handle], b)
		}
		for _, b := range g.Bodies {
			if !b.Ended {
				continue
			}
			want := reverse(b.Registered)
			var got []int
			for _, r := range b.CleanupRuns {
				got = append(got, r.Idx)
			}
			complete := !timedOut || len(got) == len(want)
			if !complete {
				continue
			}
			if !equalInts(got, want) {
				env.Violate("C06", "iteration-cleanups-wrong", "run/"+c.Mode, "iteration %s registered cleanups %v; they ran as %v (body %s)", b.Iter, b.Registered, got, behavNames[b.Plan.Behav])
			}
			for _, r := range b.CleanupRuns {
				if r.Seq < b.EndSeq {
					env.Violate("C06", "cleanup-before-body-end", "run/"+c.Mode, "iteration %s: cleanup %d ran before the body ended", b.Iter, r.Idx)
				}
			}
			// before the same handle's next body
			hs := byHandle[b.Handle]
			for i, o := range hs {
				if o == b && i+1 < len(hs) {
					for _, r := range b.CleanupRuns {
						if r.Seq > hs[i+1].BeginSeq {
							env.Violate("C06", "cleanup-after-next-iteration", "run/"+c.Mode, "iteration %s: cleanup %d ran after iteration %s began on the same worker", b.Iter, r.Idx, hs[i+1].Iter)
						}
					}
				}
			}
			if len(want) > 0 {
				env.Hit("h1.cleanups_checked")
			}
		}
		// setup cleanups
		{
			want := reverse(g.SetupRegs)
			var got []int
			for _, r := range g.SetupCleanRuns {
				got = append(got, r.Idx)
			}
			if !equalInts(got, want) {
				env.Violate("C06", "setup-cleanups-wrong", "run/"+c.Mode, "setup registered cleanups %v; they ran as %v (cancelled=%v setup=%s)", g.SetupRegs, got, g.Cancelled, behavNames[c.Prog.SetupBehav])
			}
			teardownFail := false
			for _, r := range g.SetupCleanRuns {
				if r.Seq > g.DoReturnedSeq {
					env.Violate("C06", "setup-cleanup-after-return", "run/"+c.Mode, "setup cleanup %d ran after Do returned", r.Idx)
				}
				if !timedOut {
					for _, b := range g.Bodies {
						if !b.Ended || b.EndSeq > r.Seq {
							env.Violate("C06", "setup-cleanup-before-iterations-done", "run/"+c.Mode, "setup cleanup %d ran while iteration %s had not finished (no completion timeout)", r.Idx, b.Iter)
							break
						}
					}
				}
				if behavFails(c.Prog.SetupCleanups[r.Idx].Behav) {
					teardownFail = true
				}
			}
			if teardownFail && hr.HaveResult && (!hr.Failed || !strings.Contains(hr.ErrStr, "teardown")) {
				env.Violate("C06", "failed-teardown-not-reported", "run/"+c.Mode, "a setup cleanup failed but result failed=%v error=%q", hr.Failed, hr.ErrStr)
			}
			if len(want) > 0 {
				env.Hit("h1.cleanups_checked")
			}
		}
	}

	// ---- C07: classification and containment ---------------------------------------------------------
	{
		for _, b := range g.Bodies {
			if b.FailedAtEntry {
				env.Violate("C07", "dirty-handle", "run/"+c.Mode, "iteration %s started with a handle already marked failed", b.Iter)
				break
			}
		}
		if hr.HaveResult && !timedOut && allEnded {
			if hr.Snap.Fail != failN || hr.Snap.Succ != passN {
				env.Violate("C07", "misclassified", "run/"+c.Mode, "result reports %d failed / %d successful; by their behaviour %d failed and %d passed (%s)",
					hr.Snap.Fail, hr.Snap.Succ, failN, passN, behaviourMix(g))
			}
		}
	}

	// ---- C08: verdict ------------------------------------------------------------------------------------
	h1Verdict(env, c, hr, passN, failN, setupFail, timedOut, allEnded)

	h1OraclesMore(env, c, st, hr, runIdx, stats, timedOut, allEnded, passN, failN, setupFail)
}

func h1Verdict(env *Env, c *H1Cfg, hr *h1Run, passN, failN uint64, setupFail, timedOut, allEnded bool) {
	g := hr.GT
	var succ, fail, drop uint64
	haveCounts := false
	if hr.HaveResult {
		succ, fail, drop, haveCounts = hr.Snap.Succ, hr.Snap.Fail, hr.Snap.Drop, true
	} else if c.Driver != "api" {
		if s, ok := summaryCounts(hr.Rec); ok {
			succ, fail, drop, haveCounts = s[1], s[2], s[3], true
		}
	}
	if !haveCounts {
		env.PrecondNotMet("C08")
		return
	}
	teardownFail := false
	for _, r := range g.SetupCleanRuns {
		if behavFails(c.Prog.SetupCleanups[r.Idx].Behav) {
			teardownFail = true
		}
	}
	total := succ + fail + drop
	var tol bool
	if c.MaxFailures == 0 && c.MaxFailRate == 0 {
		tol = fail > 0
	} else {
		tol = (c.MaxFailures > 0 && fail > c.MaxFailures) || (c.MaxFailRate > 0 && total > 0 && fail*100 > uint64(c.MaxFailRate)*total)
	}
	want := setupFail || teardownFail || (!c.IgnoreDropped && drop > 0) || tol
	got := hr.Failed
	if c.Driver != "api" {
		got = hr.CliErr != ""
	}
	if got != want {
		env.Violate("C08", "wrong-verdict", fmt.Sprintf("verdict/%s", c.Driver),
			"run reported failed=%v, documented tolerances give %v (successful=%d failed=%d dropped=%d ignore-dropped=%v max-failures=%d max-failures-rate=%d setupFailed=%v teardownFailed=%v cliErr=%q)",
			got, want, succ, fail, drop, c.IgnoreDropped, c.MaxFailures, c.MaxFailRate, setupFail, teardownFail, hr.CliErr)
	}
	env.Hit("h1.verdict_checked")
	if c.Driver == "f1" && len(hr.GT.Scenario) > 0 && c.Runs > 1 && hr.RunIdx > 0 {
		env.Hit("h1.verdict_checked_f1_second_execute")
	}
	if total == 0 {
		env.Hit("h1.verdict_zero_iterations")
	}
	if c.MaxFailRate > 0 && total > 0 {
		if fail*100 == uint64(c.MaxFailRate)*total {
			env.Hit("h1.verdict_rate_exact_boundary")
		}
		if fail*100 > uint64(c.MaxFailRate)*total && fail*100/total == uint64(c.MaxFailRate) {
			env.Hit("h1.verdict_rate_fractionally_above")
		}
	}
}

func reachedLimitMessage(r *Recorder) bool {
	for _, l := range r.Logs {
		if strings.HasPrefix(l.Msg, "Max Iterations Reached") {
			return true
		}
	}
	for _, p := range r.Out {
		if strings.Contains(p.Text, "Max Iterations Reached") {
			return true
		}
	}
	return false
}

// summaryCounts extracts (started, successful, failed, dropped) from the structured final summary.
func summaryCounts(r *Recorder) ([4]uint64, bool) {
	var out [4]uint64
	for i := len(r.Logs) - 1; i >= 0; i-- {
		l := r.Logs[i]
		if l.Msg == "Load Test Passed" || l.Msg == "Load Test Failed" {
			for k, name := range []string{"started", "successful", "failed", "dropped"} {
				v, err := strconv.ParseUint(l.Attrs["iteration_stats."+name], 10, 64)
				if err != nil {
					return out, false
				}
				out[k] = v
			}
			return out, true
		}
	}
	return out, false
}

func iterationCounts(series []metricSeries, scenario string) map[string]uint64 {
	out := map[string]uint64{"success": 0, "fail": 0, "dropped": 0}
	for _, s := range series {
		if s.Family == "form3_loadtest_iteration" && s.Labels["test"] == scenario && s.Labels["stage"] == "iteration" {
			out[s.Labels["result"]] += s.Count
		}
	}
	return out
}

func behaviourMix(g *runGT) string {
	m := map[string]int{}
	for _, b := range g.Bodies {
		m[behavNames[b.Plan.Behav]]++
	}
	var parts []string
	for _, k := range sortedKeys(m) {
		parts = append(parts, fmt.Sprintf("%s×%d", k, m[k]))
	}
	return strings.Join(parts, " ")
}

func leakSig(l []string) string {
	if len(l) == 0 {
		return ""
	}
	s := l[0]
	if i := strings.Index(s, " <- "); i > 0 {
		s = s[:i]
	}
	return s
}

func reverse(xs []int) []int {
	out := make([]int, len(xs))
	for i, x := range xs {
		out[len(xs)-1-i] = x
	}
	return out
}

func equalInts(a, b []int) bool {
	if len(a) != len(b) {
		return false
	}
	for i := range a {
		if a[i] != b[i] {
			return false
		}
	}
	return true
}

func truncate(s string, n int) string {
	if len(s) > n {
		return s[:n] + "…"
	}
	return s
}

var _ = progress.Snapshot{}
