// Package verifharness holds the simulation harnesses (H1–H6 of /verif/DESIGN.md §3). It is copied
// into the instrumented scratch copy of f1 as internal/verifharness so that it may import
// internal/... packages. Files named *_raw.go are not instrumented (they run on the scheduler's
// root goroutine or are pure helpers); all other files get the same yield points as f1 itself.
package verifharness

import (
	"crypto/sha256"
	"encoding/hex"
	"encoding/json"
	"fmt"
	"github.com/form3tech-oss/f1/v2/internal/verifsim/simsignal"
	"os"
	"sort"
	"strings"
	"time"

	"github.com/form3tech-oss/f1/v2/internal/verifsim/simrt"
)

// Violation is one oracle failure of one property in one run.
type Violation struct {
	Prop   string `json:"prop"`
	Class  string `json:"class"`  // stable, coarse: used to decide "same violation" when shrinking
	Detail string `json:"detail"` // human readable
	// Sig identifies the failing input / call site / history for known-findings matching.
	Sig string `json:"sig"`
}

// Env is what a harness run works with.
type Env struct {
	Sim   *simrt.Sim
	Prop  string
	Tier  string
	Viol  []Violation
	Pre   map[string]bool // prop -> precondition not met
	Cover map[string]uint64
	Notes []string
	// PreIDs: goroutines that existed before this run's bubble was created
	PreIDs map[uint64]bool
	SimCfg simrt.Config
}

func (e *Env) Violate(prop, class, sig, format string, args ...any) {
	e.Viol = append(e.Viol, Violation{Prop: prop, Class: class, Sig: sig, Detail: fmt.Sprintf(format, args...)})
}

func (e *Env) PrecondNotMet(prop string) {
	if e.Pre == nil {
		e.Pre = map[string]bool{}
	}
	e.Pre[prop] = true
}

// Hit counts a harness-level coverage probe.
func (e *Env) Hit(name string) {
	if e.Cover == nil {
		e.Cover = map[string]uint64{}
	}
	e.Cover[name]++
}

func (e *Env) Log(kind string, a, b int64, s string) { e.Sim.Log(kind, a, b, s) }

// Harness is one simulated system configuration generator + driver + oracles.
type Harness interface {
	Name() string
	// Props lists the properties this harness can judge.
	Props() []string
	// Gen draws a configuration for checking prop (biasing towards what matters for it).
	Gen(prop, tier string, r *simrt.Rng) (cfg any, sim simrt.Config)
	// Decode turns a replayed configuration back into the concrete type.
	Decode(raw json.RawMessage) (any, error)
	// Run executes one simulated run on the bubble's root goroutine: create tasks, env.Sim.Run(),
	// evaluate oracles.
	Run(env *Env, cfg any)
	// Describe renders a configuration compactly for evidence samples and "distinct" counting.
	Describe(cfg any) string
	// NonTrivial says whether a finished run exercised the property in a non-trivial way.
	NonTrivial(prop string, env *Env, st simrt.Stats) bool
}

var registry = map[string]Harness{}

func register(h Harness) { registry[h.Name()] = h }

// propHarness maps a property to the harnesses that check it (first is primary).
var propHarness = map[string][]string{}

func bindProp(prop string, harnesses ...string) { propHarness[prop] = harnesses }

// RunRecord is the outcome of one run.
type RunRecord struct {
	Seed     uint64            `json:"seed"`
	Harness  string            `json:"harness"`
	Prop     string            `json:"prop"`
	Cfg      json.RawMessage   `json:"cfg,omitempty"`
	SimCfg   simrt.Config      `json:"sim_cfg"`
	Verdict  string            `json:"verdict"` // ok | violation | precond | inconclusive | hang
	Viol     []Violation       `json:"violations,omitempty"`
	Stats    simrt.Stats       `json:"stats"`
	LogHash  string            `json:"log_hash"`
	Choices  []uint32          `json:"-"`
	Kinds    []byte            `json:"-"`
	Events   []string          `json:"events,omitempty"`
	Trace    []string          `json:"trace,omitempty"`
	Cover    map[string]uint64 `json:"cover,omitempty"`
	Panic    string            `json:"panic,omitempty"`
	NonTriv  bool              `json:"nontrivial"`
	Desc     string            `json:"desc,omitempty"`
	Diverged int               `json:"diverged,omitempty"`
	WallUs   int64             `json:"wall_us"`
}

func hashEvents(evs []simrt.Event, trace uint64) string {
	h := sha256.New()
	for _, e := range evs {
		fmt.Fprintln(h, e.String())
	}
	fmt.Fprintf(h, "trace=%d", trace)
	return hex.EncodeToString(h.Sum(nil))[:16]
}

// ReplayFile is the on-disk replay artefact.
type ReplayFile struct {
	Property  string            `json:"property"`
	Harness   string            `json:"harness"`
	Seed      uint64            `json:"seed"`
	TreeHash  string            `json:"tree_hash,omitempty"`
	Cfg       json.RawMessage   `json:"cfg"`
	SimCfg    simrt.Config      `json:"sim_cfg"`
	NChoices  int               `json:"n_choices"`
	Choices   map[string]uint32 `json:"choices"` // sparse: index -> nonzero value
	Kinds     string            `json:"kinds,omitempty"`
	Class     string            `json:"class"`
	Sig       string            `json:"sig"`
	Detail    string            `json:"detail"`
	LogHash   string            `json:"log_hash"`
	Minimised bool              `json:"minimised"`
	Schedule  []string          `json:"schedule,omitempty"`
	Events    []string          `json:"events,omitempty"`
	// where in which search process the run was executed: a violation that does not reproduce in a fresh process
	// is re-executed together with the runs that preceded it there (state surviving from one run to the next)
	Proc *ProcInfo `json:"proc,omitempty"`
}

type ProcInfo struct {
	Seed0   uint64 `json:"seed0"`
	Worker  int    `json:"worker"`
	Workers int    `json:"workers"`
	Start   int    `json:"start"`  // first run number executed by that process
	RunNo   int    `json:"run_no"` // run number of this run
	Recheck int    `json:"recheck"`
}

func sparse(vec []uint32) map[string]uint32 {
	m := map[string]uint32{}
	for i, v := range vec {
		if v != 0 {
			m[fmt.Sprint(i)] = v
		}
	}
	return m
}

func dense(n int, m map[string]uint32) []uint32 {
	vec := make([]uint32, n)
	for k, v := range m {
		var i int
		fmt.Sscan(k, &i)
		if i >= 0 && i < n {
			vec[i] = v
		}
	}
	return vec
}

func sortedKeys[V any](m map[string]V) []string {
	ks := make([]string, 0, len(m))
	for k := range m {
		ks = append(ks, k)
	}
	sort.Strings(ks)
	return ks
}

// f1Frames extracts, from a goroutine stack text, the f1 function names (outermost last) that are
// not part of the simulator or the harness.
func f1Frames(stack string) []string {
	var out []string
	for _, ln := range strings.Split(stack, "\n") {
		if !strings.HasPrefix(ln, "github.com/form3tech-oss/f1/v2/") {
			continue
		}
		if strings.Contains(ln, "/internal/verifsim/") || strings.Contains(ln, "/internal/verifharness") {
			continue
		}
		fn := strings.TrimPrefix(ln, "github.com/form3tech-oss/f1/v2/")
		if i := strings.LastIndex(fn, "("); i > 0 {
			fn = fn[:i]
		}
		out = append(out, fn)
	}
	return out
}

// leftoverF1 lists goroutines (other than excluded ids) that still have an f1 frame on their stack.
func leftoverF1(exclude map[uint64]bool) []string {
	var out []string
	gs := simrt.Goroutines(exclude)
	ids := make([]uint64, 0, len(gs))
	for id := range gs {
		ids = append(ids, id)
	}
	sort.Slice(ids, func(i, j int) bool { return ids[i] < ids[j] })
	for _, id := range ids {
		fr := f1Frames(gs[id])
		if len(fr) > 0 {
			out = append(out, strings.Join(fr, " <- "))
		}
	}
	sort.Strings(out)
	return out
}

func dur(ns int64) time.Duration { return time.Duration(ns) }

// atomicCancel records the cancellation instant and cancels in one step (no scheduling point in between:
// this file is not instrumented), so that "cancelled" in the ground truth means cancel() has been called.
// signalCancel delivers SIGINT the way the operating system would (to whatever f1 has registered since generation
// since); the run counts as cancelled when a registration of its own received it.
func signalCancel(env *Env, since int, flag *bool, ns *int64, seq *uint64) {
	if simsignal.Deliver(os.Interrupt, since) > 0 {
		atomicCancel(env, flag, ns, seq, func() {})
		env.Hit("fault.signal_delivered")
	}
}

func atomicCancel(env *Env, flag *bool, ns *int64, seq *uint64, cancel func()) {
	if !*flag {
		*flag = true
		*ns, *seq = env.Sim.Now(), env.Sim.Step()
		env.Sim.Log("cancel", 0, 0, "")
	}
	cancel()
}
