//go:build !noh5

package verifharness

import (
	"encoding/json"
	"fmt"
	"math"
	"strings"
	"time"

	"github.com/spf13/pflag"

	"github.com/form3tech-oss/f1/v2/internal/trigger"
	"github.com/form3tech-oss/f1/v2/internal/trigger/api"
	"github.com/form3tech-oss/f1/v2/internal/trigger/constant"
	"github.com/form3tech-oss/f1/v2/internal/trigger/gaussian"
	"github.com/form3tech-oss/f1/v2/internal/trigger/ramp"
	"github.com/form3tech-oss/f1/v2/internal/trigger/staged"
	"github.com/form3tech-oss/f1/v2/internal/ui"
	"github.com/form3tech-oss/f1/v2/internal/verifsim/simrt"
)

type H5Stage struct {
	DurMs  int64 `json:"dur_ms"`
	Target int   `json:"target"`
}

type H5Cfg struct {
	Kind          string    `json:"kind"` // staged | ramp | gaussian | dist | jitter
	Concurrency   int       `json:"concurrency"`
	RunNs         int64     `json:"run"`
	StartOffsetNs int64     `json:"start_offset,omitempty"`
	Dist          string    `json:"dist"`
	Jitter        float64   `json:"jitter,omitempty"`
	FreqMs        int64     `json:"freq_ms,omitempty"`
	Stages        []H5Stage `json:"stages,omitempty"`
	ExplicitStart bool      `json:"explicit_start,omitempty"` // staged: pass a start time (now - StartBackMs)
	StartBackMs   int64     `json:"start_back_ms,omitempty"`
	RampFrom      int       `json:"ramp_from,omitempty"`
	RampTo        int       `json:"ramp_to,omitempty"`
	RampUnitMs    int64     `json:"ramp_unit_ms,omitempty"`
	RampToUnitMs  int64     `json:"ramp_to_unit_ms,omitempty"` // end-rate spelled per another duration (0: the same)
	Spell         int       `json:"spell,omitempty"`           // 1: zero-padded numbers, 2: compound Go durations
	RampDurMs     int64     `json:"ramp_dur_ms,omitempty"`
	Volume        float64   `json:"volume,omitempty"`
	RepeatMs      int64     `json:"repeat_ms,omitempty"`
	PeakMs        int64     `json:"peak_ms,omitempty"`
	StddevMs      int64     `json:"stddev_ms,omitempty"`
	Weights       []float64 `json:"weights,omitempty"`
	Rates         []int     `json:"rates,omitempty"` // scripted underlying rate per evaluation (cyclic)
	RandBeyond    bool      `json:"rand_beyond,omitempty"`
	ConstRate     int       `json:"const_rate,omitempty"`    // kind constant: N of "N/<freq>"
	PureTicks     int64     `json:"pure_ticks,omitempty"`    // dist kind: evaluate this many consecutive sub-ticks back to back
	ViaBuilder    bool      `json:"via_builder,omitempty"`   // built from command-line flags by f1's own builder (twin: built directly)
	EvalSleepNs   []int64   `json:"eval_sleep_ns,omitempty"` // the k-th rate evaluation takes this long (cyclic; the first is never delayed)
	BodyNs        []int64   `json:"body_ns,omitempty"`       // duration of the k-th started iteration (cyclic); empty = instantaneous
	Direct        bool      `json:"direct,omitempty"`        // evaluate with a plain ticker loop instead of the real pool (large rates)
}

type h5Call struct {
	CallNs int64 // simulated instant of the call
	ArgNs  int64 // the time argument (ns since Epoch)
	V      int
	Seq    uint64
}

type h5Shared struct {
	outer       []h5Call
	inner       []h5Call // underlying rate evaluations (dist/jitter kinds)
	started     uint64
	dropped     uint64
	recorded    uint64
	trigStartNs int64
	trigEndNs   int64
	iterDurNs   int64
	ratesDurNs  int64
	buildErr    string
	finished    bool
	stagedT0    int64
	innerCount  int
	lastInner   int
	pureCycles  int64
	pureViol    string
	bodyBegin   []int64 // simulated instant at which the k-th iteration began, and its planned duration
	bodyDur     []int64
}

// beginBody counts a started iteration and returns its planned duration (atomic: no scheduling points here).
func (sh *h5Shared) beginBody(c *H5Cfg, now int64) int64 {
	k := sh.started
	sh.started++
	var d int64
	if len(c.BodyNs) > 0 {
		d = c.BodyNs[int(k)%len(c.BodyNs)]
	}
	if len(sh.bodyBegin) < 200000 {
		sh.bodyBegin = append(sh.bodyBegin, now)
		sh.bodyDur = append(sh.bodyDur, d)
	}
	return d
}

// h5PureLoop evaluates c.PureTicks consecutive sub-ticks and checks every cycle on the fly (C12), keeping
// only counters: the call logs of ten million evaluations would not fit.
func h5PureLoop(env *Env, c *H5Cfg, sh *h5Shared, rate func(time.Time) int) {
	n := int(c.FreqMs / 100)
	t := simrt.Epoch.Add(time.Duration(env.Sim.Now()))
	var cycSum, cycMin, cycMax, pos int
	cycMin = 1 << 62
	innerAtCycleStart := 0
	for i := int64(0); i < c.PureTicks; i++ {
		if pos == 0 {
			innerAtCycleStart = sh.innerCount
		}
		v := rate(t)
		t = t.Add(100 * time.Millisecond)
		if v < 0 {
			sh.pureViol = fmt.Sprintf("sub-tick %d: value %d", i, v)
			return
		}
		cycSum += v
		cycMin, cycMax = min(cycMin, v), max(cycMax, v)
		pos++
		if pos == n {
			cyc := i / int64(n)
			if sh.innerCount != innerAtCycleStart+1 {
				sh.pureViol = fmt.Sprintf("cycle %d: the underlying rate was evaluated %d times", cyc, sh.innerCount-innerAtCycleStart)
				return
			}
			if cycSum != sh.lastInner {
				sh.pureViol = fmt.Sprintf("cycle %d of %d sub-ticks: values sum to %d, the underlying rate produced %d", cyc, n, cycSum, sh.lastInner)
				return
			}
			if c.Dist == "regular" && cycMax-cycMin > 1 {
				sh.pureViol = fmt.Sprintf("cycle %d: regular distribution of %d ranges from %d to %d", cyc, sh.lastInner, cycMin, cycMax)
				return
			}
			sh.pureCycles++
			cycSum, cycMax, pos = 0, 0, 0
			cycMin = 1 << 62
		}
	}
}

func (sh *h5Shared) logInner(env *Env, t time.Time, v int) {
	sh.inner = append(sh.inner, h5Call{CallNs: env.Sim.Now(), ArgNs: int64(t.Sub(simrt.Epoch)), V: v, Seq: env.Sim.Step()})
}

func (sh *h5Shared) logOuter(env *Env, t time.Time, v int) {
	sh.outer = append(sh.outer, h5Call{CallNs: env.Sim.Now(), ArgNs: int64(t.Sub(simrt.Epoch)), V: v, Seq: env.Sim.Step()})
}

func stagesString(st []H5Stage, spell int) string {
	var p []string
	for _, s := range st {
		switch spell {
		case 1: // a zero-padded number is the same number
			p = append(p, fmt.Sprintf("%dms:%03d", s.DurMs, s.Target))
		case 2: // 1m30s, 1.5s …
			p = append(p, fmt.Sprintf("%s:%d", time.Duration(s.DurMs)*time.Millisecond, s.Target))
		default:
			p = append(p, fmt.Sprintf("%dms:%d", s.DurMs, s.Target))
		}
	}
	return strings.Join(p, ",")
}

func weightsString(ws []float64) string {
	var p []string
	for _, w := range ws {
		p = append(p, fmt.Sprintf("%g", w))
	}
	return strings.Join(p, ",")
}

// h5Build composes the rate function from f1's own constructors (the way the builders do).
func h5Build(env *Env, c *H5Cfg, sh *h5Shared) (*api.Rates, error) {
	scripted := func(t time.Time) int {
		v := 0
		if c.PureTicks > 0 {
			if len(c.Rates) > 0 {
				v = c.Rates[sh.innerCount%len(c.Rates)]
			}
			sh.innerCount++
			sh.lastInner = v
			return v
		}
		if len(c.Rates) > 0 {
			v = c.Rates[len(sh.inner)%len(c.Rates)]
		}
		sh.inner = append(sh.inner, h5Call{CallNs: env.Sim.Now(), ArgNs: int64(t.Sub(simrt.Epoch)), V: v, Seq: env.Sim.Step()})
		return v
	}
	freq := time.Duration(c.FreqMs) * time.Millisecond
	if c.ViaBuilder {
		return h5ViaBuilder(c)
	}
	switch c.Kind {
	case "staged":
		var start *time.Time
		if c.ExplicitStart {
			s := time.Now().Add(-time.Duration(c.StartBackMs) * time.Millisecond)
			start = &s
			sh.stagedT0 = int64(s.Sub(simrt.Epoch))
		}
		return staged.CalculateStagedRate(c.Jitter, freq, stagesString(c.Stages, c.Spell), c.Dist, start)
	case "ramp":
		toUnit, pat := c.RampUnitMs, "%d/%dms"
		if c.RampToUnitMs > 0 {
			toUnit = c.RampToUnitMs
		}
		if c.Spell == 1 {
			pat = "%03d/%dms"
		}
		return ramp.CalculateRampRate(fmt.Sprintf(pat, c.RampFrom, c.RampUnitMs), fmt.Sprintf(pat, c.RampTo, toUnit), c.Dist,
			time.Duration(c.RampDurMs)*time.Millisecond, c.Jitter)
	case "gaussian":
		return gaussian.CalculateGaussianRate(c.Volume, c.Jitter, time.Duration(c.RepeatMs)*time.Millisecond, freq,
			time.Duration(c.PeakMs)*time.Millisecond, time.Duration(c.StddevMs)*time.Millisecond, weightsString(c.Weights), c.Dist)
	case "constant":
		return constant.CalculateConstantRate(c.Jitter, fmt.Sprintf("%d/%dms", c.ConstRate, c.FreqMs), c.Dist)
	case "dist":
		randFn := func(n int) int {
			extremes := []uint32{0, uint32(n - 1), uint32(n / 2)}
			if c.RandBeyond {
				extremes = append(extremes, uint32(n), uint32(2*n+1), 1<<30)
			}
			v, ok := simrt.Rand32(extremes)
			if !ok {
				return 0
			}
			if c.RandBeyond {
				return int(v % uint32(3*n+2)) // may be >= n: the statement allows any non-negative output
			}
			return int(v % uint32(n))
		}
		d, fn, err := api.NewDistribution(api.DistributionType(c.Dist), freq, scripted, randFn)
		if err != nil {
			return nil, err
		}
		return &api.Rates{IterationDuration: d, Rate: fn}, nil
	case "jitter":
		return &api.Rates{IterationDuration: freq, Rate: api.WithJitter(scripted, c.Jitter)}, nil
	}
	return nil, fmt.Errorf("unknown kind %s", c.Kind)
}

// h5ViaBuilder builds the profile the way `f1 run <mode> --flag…` does: f1's builder parses a flag set and hands
// the trigger (and the chart command) one rate closure. The tick interval is what the configuration spells.
func h5ViaBuilder(c *H5Cfg) (*api.Rates, error) {
	var args []string
	mode := c.Kind
	switch c.Kind {
	case "staged":
		args = []string{"--stages=" + stagesString(c.Stages, c.Spell), fmt.Sprintf("--iterationFrequency=%dms", c.FreqMs)}
	case "ramp":
		args = []string{fmt.Sprintf("--start-rate=%d/%dms", c.RampFrom, c.RampUnitMs), fmt.Sprintf("--end-rate=%d/%dms", c.RampTo, c.RampUnitMs), fmt.Sprintf("--ramp-duration=%dms", c.RampDurMs)}
	case "gaussian":
		args = []string{fmt.Sprintf("--volume=%v", c.Volume), fmt.Sprintf("--repeat=%dms", c.RepeatMs), fmt.Sprintf("--iteration-frequency=%dms", c.FreqMs),
			fmt.Sprintf("--peak=%dms", c.PeakMs), fmt.Sprintf("--standard-deviation=%dms", c.StddevMs), "--weights=" + weightsString(c.Weights)}
	case "constant":
		args = []string{fmt.Sprintf("--rate=%d/%dms", c.ConstRate, c.FreqMs)}
	default:
		return nil, fmt.Errorf("no builder for kind %s", c.Kind)
	}
	args = append(args, "--distribution="+c.Dist, fmt.Sprintf("--jitter=%v", c.Jitter))
	b := builderFor(trigger.GetBuilders(ui.NewDiscardOutput()), mode)
	if b == nil {
		return nil, fmt.Errorf("no builder for mode %s", mode)
	}
	fs := pflag.NewFlagSet("h5", pflag.ContinueOnError)
	fs.AddFlagSet(b.Flags)
	if fs.Lookup("max-duration") == nil {
		fs.Duration("max-duration", time.Second, "")
	}
	if err := fs.Parse(args); err != nil {
		return nil, err
	}
	t, err := b.New(fs)
	if err != nil {
		return nil, err
	}
	return &api.Rates{Rate: t.DryRun, IterationDuration: time.Duration(h5Interval(c)), Duration: t.Duration}, nil
}

type h5 struct{}

func init() { register(h5{}) }

func (h5) Name() string    { return "H5" }
func (h5) Props() []string { return []string{"C09", "C10", "C11", "C12", "C13"} }

func (h5) Decode(raw json.RawMessage) (any, error) {
	var c H5Cfg
	err := json.Unmarshal(raw, &c)
	return &c, err
}

func (h5) Describe(cfg any) string {
	c := cfg.(*H5Cfg)
	return fmt.Sprintf("H5 %s dist=%s jitter=%g freq=%dms run=%s stages=%s ramp=%d..%d/%dms gauss(v=%g rep=%d peak=%d sd=%d w=%v) rates=%d",
		c.Kind, c.Dist, c.Jitter, c.FreqMs, dur(c.RunNs), stagesString(c.Stages, c.Spell), c.RampFrom, c.RampTo, c.RampDurMs, c.Volume, c.RepeatMs, c.PeakMs, c.StddevMs, c.Weights, len(c.Rates))
}

func (h5) Gen(prop, tier string, r *simrt.Rng) (any, simrt.Config) {
	c := &H5Cfg{Concurrency: 1 + r.Intn(4), Dist: "none"}
	thorough := tier == "thorough"
	kind := map[string]string{"C10": simrt.Pick(r, "staged", "staged", "ramp"), "C11": "gaussian", "C12": simrt.Pick(r, "dist", "dist", "dist", "constant"),
		"C13": simrt.Pick(r, "jitter", "jitter", "staged", "ramp", "gaussian")}[prop]
	if kind == "" {
		kind = simrt.Pick(r, "staged", "ramp", "dist", "jitter", "gaussian")
	}
	c.Kind = kind
	maxTicks := 300
	if thorough {
		maxTicks = 2000
	}
	switch kind {
	case "staged":
		c.FreqMs = simrt.Pick(r, int64(10), 20, 50, 100, 100, 250, 1000)
		var total int64
		for i, n := 0, 1+r.Intn(6); i < n; i++ {
			d := simrt.Pick(r, int64(0), 0, 1, 10, 100, 250, 500, 1000, 2000, 5000)
			if r.Intn(3) == 0 {
				d = int64(r.Intn(3000))
			}
			total += d
			c.Stages = append(c.Stages, H5Stage{DurMs: d, Target: r.Intn(201)})
		}
		if r.Intn(4) == 0 {
			c.ExplicitStart = true
			c.StartBackMs = r.Int63n(total + 500)
		}
		c.RunNs = (total+int64(r.Intn(1500)))*ms + odd(r)
		if c.RunNs/(c.FreqMs*ms) > int64(maxTicks) {
			c.FreqMs = (c.RunNs/ms/int64(maxTicks)/10 + 1) * 10
		}
		if r.Intn(6) == 0 {
			// long horizon: stages of minutes to hours, evaluated once a minute
			c.FreqMs, c.Stages, total = 60000, nil, 0
			for i, n := 0, 1+r.Intn(4); i < n; i++ {
				d := int64(simrt.Pick(r, 1, 10, 45, 90, 180, 300)) * 60000
				total += d
				c.Stages = append(c.Stages, H5Stage{DurMs: d, Target: r.Intn(2001)})
			}
			c.ExplicitStart = false
			c.RunNs = (total+int64(r.Intn(5))*60000)*ms + odd(r)
			c.Direct = true
		}
		c.Spell = simrt.Pick(r, 0, 0, 0, 1, 2)
	case "ramp":
		c.RampUnitMs = simrt.Pick(r, int64(10), 50, 100, 100, 1000)
		c.RampFrom, c.RampTo = r.Intn(201), r.Intn(201)
		if c.RampFrom == c.RampTo {
			c.RampTo++
		}
		c.RampDurMs = c.RampUnitMs * int64(1+r.Intn(min(maxTicks, 200)))
		if r.Intn(4) == 0 {
			c.RampDurMs += int64(r.Intn(int(c.RampUnitMs)))
		}
		c.RunNs = (c.RampDurMs+int64(r.Intn(5))*c.RampUnitMs)*ms + odd(r)
		if r.Intn(8) == 0 && c.RampUnitMs >= 100 {
			// start and end rate spelled per different durations: refused, or a ramp between what the two rates spell
			if r.Intn(2) == 0 {
				c.RampToUnitMs = c.RampUnitMs / 10
			} else {
				c.RampToUnitMs = c.RampUnitMs * 10
				c.RampTo = 10 * (1 + r.Intn(30))
			}
		}
		c.Spell = simrt.Pick(r, 0, 0, 0, 1)
		if r.Intn(6) == 0 {
			c.RampToUnitMs = 0
			// long horizon: a ramp over hours, evaluated once a minute
			c.RampUnitMs = 60000
			c.RampFrom, c.RampTo = r.Intn(2001), r.Intn(2001)
			if c.RampFrom == c.RampTo {
				c.RampTo++
			}
			c.RampDurMs = 60000 * int64(simrt.Pick(r, 30, 120, 180, 400, 600))
			c.RunNs = (c.RampDurMs+int64(r.Intn(5))*60000)*ms + odd(r)
			c.Direct = true
		}
	case "gaussian":
		c.FreqMs = simrt.Pick(r, int64(100), 200, 500, 1000, 1000, 5000, 60000)
		steps := int64(simrt.Pick(r, 100, 120, 200, 360, 600))
		c.RepeatMs = c.FreqMs * steps
		c.PeakMs = r.Int63n(c.RepeatMs + 1)
		if r.Intn(5) == 0 {
			c.PeakMs = simrt.Pick(r, int64(0), c.RepeatMs, c.RepeatMs/2)
		}
		c.StddevMs = c.FreqMs * int64(simrt.Pick(r, 1, 2, 5, 20, 60, 200, 1000))
		c.Volume = float64(simrt.Pick(r, 10, 37, 100, 500, 2000, 5000))
		if r.Intn(2) == 0 {
			for i, n := 0, 1+r.Intn(7); i < n; i++ {
				c.Weights = append(c.Weights, simrt.Pick(r, 0.5, 1, 1, 1.5, 2, 0.25, 3, 0, 0))
			}
			pos := false
			for _, w := range c.Weights {
				pos = pos || w > 0
			}
			if !pos {
				c.Weights[r.Intn(len(c.Weights))] = 1 // a mean weight of zero is not a meaningful configuration
			}
		}
		nwin := int64(2 + r.Intn(2))
		if thorough && r.Intn(3) == 0 {
			nwin = int64(3 + r.Intn(len(c.Weights)+2))
		}
		c.RunNs = nwin*c.RepeatMs*ms + odd(r)
		c.StartOffsetNs = r.Int63n(int64(72*time.Hour)) + 1
		if r.Intn(3) == 0 {
			c.StartOffsetNs = r.Int63n(c.RepeatMs*ms) + 1
		}
		c.Concurrency = 2
	case "dist":
		c.Dist = simrt.Pick(r, "regular", "random", "random", "none")
		c.FreqMs = simrt.Pick(r, int64(50), 100, 150, 200, 215, 299, 300, 900, 1000, 2000, 60000, 600000)
		for i, n := 0, 1+r.Intn(8); i < n; i++ {
			c.Rates = append(c.Rates, simrt.Pick(r, 0, 1, 2, 5, 7, 10, 28, 100, r.Intn(1000), 100000))
		}
		c.RandBeyond = r.Intn(2) == 0
		n := c.FreqMs / 100
		if n < 1 {
			n = 1
		}
		cycles := int64(1 + r.Intn(5))
		if n*cycles > int64(maxTicks)*2 {
			cycles = 1
		}
		c.RunNs = cycles*n*min(c.FreqMs, 100)*ms + int64(r.Intn(3))*100*ms + odd(r)
		if c.FreqMs <= 100 || c.Dist == "none" {
			c.RunNs = int64(2+r.Intn(20))*c.FreqMs*ms + odd(r)
			if c.RunNs > int64(maxTicks)*c.FreqMs*ms {
				c.RunNs = int64(maxTicks)*c.FreqMs*ms + odd(r)
			}
		}
		longP := 2500
		if thorough {
			longP = 150
		}
		if c.Dist != "none" && c.FreqMs > 100 && r.Intn(longP) == 0 {
			// long horizon: tens of millions of consecutive sub-ticks with shares that are not on any float grid
			c.FreqMs = simrt.Pick(r, int64(300), 600, 700, 900, 60000)
			c.Rates = []int{simrt.Pick(r, 1, 2, 7, 100, 1000)}
			if r.Intn(2) == 0 {
				c.Rates = append(c.Rates, simrt.Pick(r, 1, 5, 11))
			}
			c.Dist = "regular" // the random distribution would record one choice per draw
			c.PureTicks = int64(simrt.Pick(r, 12, 20, 33)) * 1000000
			c.RunNs = int64(time.Second)
		}
	case "constant":
		// the constant trigger as its builder composes it: jitter inside, distribution outside
		c.Dist = simrt.Pick(r, "regular", "regular", "random")
		c.FreqMs = simrt.Pick(r, int64(200), 300, 500, 1000, 2000)
		c.ConstRate = simrt.Pick(r, 1, 7, 50, 200, 1000)
		c.Jitter = simrt.Pick(r, 0.0, 10, 50, 90)
		c.RunNs = int64(3+r.Intn(20))*c.FreqMs*ms + odd(r)
		c.Direct = true
	case "jitter":
		c.Jitter = simrt.Pick(r, 0.0, 1, 5, 10, 25, 50, 75, 90, 99, 99.9)
		c.FreqMs = simrt.Pick(r, int64(10), 20, 100)
		for i, n := 0, 1+r.Intn(10); i < n; i++ {
			c.Rates = append(c.Rates, simrt.Pick(r, 0, 0, 1, 2, 3, 10, 50, 100, 200))
		}
		ticks := int64(10 + r.Intn(maxTicks))
		c.RunNs = ticks*c.FreqMs*ms + odd(r)
	}
	if prop == "C13" && c.Kind != "jitter" {
		// jitter applied the way the trigger builders apply it (around the mode's own rate function)
		c.Jitter = simrt.Pick(r, 1.0, 10, 25, 50, 75, 90, 99)
		c.Dist = "none"
		c.Direct = true
		if c.Kind == "gaussian" {
			c.Volume = float64(simrt.Pick(r, 500, 5000, 50000))
		}
	}
	if r.Intn(2) == 0 && c.Kind != "gaussian" {
		// slow iterations: a backlog builds up, ticks supersede it (checked against the reference pool)
		iv := c.FreqMs
		if c.Kind == "ramp" {
			iv = c.RampUnitMs
		}
		if (c.Dist == "regular" || c.Dist == "random") && iv > 100 {
			iv = 100
		}
		for i, n := 0, 1+r.Intn(6); i < n; i++ {
			base := simrt.Pick(r, int64(0), iv*ms/3, iv*ms, iv*ms*5/2, iv*ms*7)
			c.BodyNs = append(c.BodyNs, base+int64(1+2*i)*1013+int64(r.Intn(400))*2)
		}
		c.Concurrency = 1 + r.Intn(3)
	}
	// requests are executed by a small pool: keep the volume of work bounded (dropped requests cost steps too)
	var big int64
	for _, v := range c.Rates {
		big += int64(v)
	}
	if c.Kind == "dist" || c.Kind == "jitter" {
		c.Direct = big*int64(1+c.RunNs/(c.FreqMs*ms))/int64(len(c.Rates)) > 4000
	}
	if (c.Kind == "staged" || c.Kind == "ramp" || c.Kind == "gaussian" || c.Kind == "constant") && c.Jitter == 0 && c.Dist != "random" &&
		!c.ExplicitStart && c.RampToUnitMs == 0 && c.PureTicks == 0 && r.Intn(4) == 0 {
		c.ViaBuilder = true
	}
	sc := simrt.Config{
		Strategy: simrt.Pick(r, "sticky", "rr", "rw"), SwitchProb: 0.01, MaxSimNs: c.StartOffsetNs + c.RunNs + int64(time.Hour), MaxSteps: 3000000,
		RandExtreme: simrt.Pick(r, 0.0, 0.1, 0.4),
	}
	if prop == "C11" && c.Kind == "gaussian" && r.Intn(4) == 0 {
		// the ticking loop is held up for several ticks now and then (ticks are lost): no burst afterwards
		tick := h5Interval(c)
		for i, n := 0, 5+r.Intn(20); i < n; i++ {
			c.EvalSleepNs = append(c.EvalSleepNs, 0)
		}
		for i, n := 0, 1+r.Intn(3); i < n; i++ {
			c.EvalSleepNs[r.Intn(len(c.EvalSleepNs))] = tick*int64(simrt.Pick(r, 23, 53, 31))/10 + 177
		}
		if len(c.Weights) > 1 && r.Intn(2) == 0 {
			// … or for longer than a whole repeat window (the weights of the following windows are still their own)
			c.EvalSleepNs[r.Intn(len(c.EvalSleepNs))] = c.RepeatMs*ms*int64(simrt.Pick(r, 11, 21))/10 + 177
		}
	} else if (prop == "C09" || prop == "C02") && !c.Direct && c.PureTicks == 0 && r.Intn(4) == 0 {
		// slow evaluations instead of stall faults: ticks become overdue while one is being handled
		tick := h5Interval(c)
		for i, n := 0, 3+r.Intn(5); i < n; i++ {
			c.EvalSleepNs = append(c.EvalSleepNs, 0)
		}
		for i, n := 0, 1+r.Intn(2); i < n; i++ {
			c.EvalSleepNs[r.Intn(len(c.EvalSleepNs))] = tick*int64(simrt.Pick(r, 13, 26, 7))/10 + 177
		}
	} else if (prop == "C09" || prop == "C10" || ((prop == "C12" || prop == "C13") && r.Intn(2) == 0)) && r.Intn(2) == 0 {
		// a stalled ticking goroutine gets late and skipped ticks: C12's cycles are N sub-ticks whenever they come
		tick := h5Interval(c) / ms
		sc.StallPermille, sc.StallMaxMs, sc.MaxStalls = simrt.Pick(r, 2, 10, 30), int(simrt.Pick(r, int64(5), 50, 3*tick+1, 10*tick+1)), 1+r.Intn(5)
		sc.StallSites = "api.NewIterationWorker|workers.TriggerPool.Trigger|sendJobsForExecution"
	}
	return c, sc
}

func (h5) NonTrivial(prop string, env *Env, st simrt.Stats) bool {
	switch prop {
	case "C09":
		return env.Cover["h5.cadence_checked"] > 0
	case "C10":
		return env.Cover["h5.shape_queries"] >= 3
	case "C11":
		return env.Cover["h5.gauss_windows"] > 0
	case "C12":
		return env.Cover["h5.dist_cycles"] > 0
	case "C13":
		return env.Cover["h5.jitter_ticks"] >= 10
	}
	return false
}

func (h h5) Run(env *Env, cfg any) {
	c := cfg.(*H5Cfg)
	sh := &h5Shared{}
	var pan string
	env.Sim.GoMain("main", func() {
		defer func() {
			if r := recover(); r != nil {
				pan = fmt.Sprint(r)
			}
		}()
		h5Main(env, c, sh)
	})
	env.Sim.Run()
	stats := env.Sim.Stats()
	if pan != "" {
		env.Violate("C14", "panic-escaped", "panic/"+pan, "rate construction/evaluation panicked: %s (%s)", pan, h.Describe(c))
		for _, p := range h.Props() {
			env.PrecondNotMet(p)
		}
		return
	}
	if !sh.finished || sh.buildErr != "" {
		for _, p := range h.Props() {
			env.PrecondNotMet(p)
		}
		return
	}
	env.Cover = map[string]uint64{}
	if c.PureTicks > 0 {
		if sh.pureViol != "" {
			env.Violate("C12", "cycle-sum", "dist/"+c.Dist+"/long-horizon", "%s (after %d clean cycles; %s)", sh.pureViol, sh.pureCycles, h.Describe(c))
		}
		env.Cover["h5.dist_cycles"] = uint64(sh.pureCycles)
		env.Cover["h5.long_horizon_subticks"] = uint64(c.PureTicks)
		return
	}
	h5Cadence(env, c, sh, stats)
	if c.ViaBuilder {
		// the trigger built from the command line is the profile of its parameters: evaluated at the same instants
		// it returns what a freshly constructed profile returns
		prop := map[string]string{"staged": "C10", "ramp": "C10", "gaussian": "C11", "constant": "C12"}[c.Kind]
		if len(sh.inner) != len(sh.outer) {
			env.Violate(prop, "builder-differs-from-profile", "builder/"+c.Kind, "%d evaluations of the built trigger, %d of the profile", len(sh.outer), len(sh.inner))
		} else {
			for i := range sh.outer {
				if sh.outer[i].V != sh.inner[i].V {
					env.Violate(prop, "builder-differs-from-profile", "builder/"+c.Kind, "evaluation %d (tick at +%s): the trigger built by `f1 run %s` asks for %d, the %s profile of the same parameters for %d (%s)",
						i, dur(sh.outer[i].ArgNs-sh.outer[0].ArgNs), c.Kind, sh.outer[i].V, c.Kind, sh.inner[i].V, (h5{}).Describe(c))
					break
				}
			}
			env.Hit("h5.builder_twin_checked")
		}
	}
	if c.Jitter > 0 && c.Kind != "jitter" && c.Kind != "dist" && c.Kind != "constant" {
		if c.Dist == "none" {
			h5Jitter(env, c, sh)
		}
		return
	}
	switch c.Kind {
	case "constant":
		h5ConstDist(env, c, sh)
	case "staged", "ramp":
		h5Shape(env, c, sh)
	case "gaussian":
		h5Gauss(env, c, sh)
	case "dist":
		h5Dist(env, c, sh)
	case "jitter":
		h5Jitter(env, c, sh)
	}
}

func h5Interval(c *H5Cfg) int64 {
	f := c.FreqMs * ms
	if c.Kind == "ramp" {
		f = c.RampUnitMs * ms
	}
	if (c.Dist == "regular" || c.Dist == "random") && f > 100*ms {
		return 100 * ms
	}
	return f
}

// h5Cadence: C09.
func h5Cadence(env *Env, c *H5Cfg, sh *h5Shared, stats simrt.Stats) {
	iv := h5Interval(c)
	if len(sh.outer) == 0 {
		env.Violate("C09", "no-initial-evaluation", "cadence/"+c.Kind, "the rate was never evaluated")
		return
	}
	if sh.iterDurNs != iv {
		// the tick interval f1 derived differs from what the configuration spells
		env.Violate("C09", "wrong-tick-interval", "cadence/"+c.Kind, "tick interval %s, configuration implies %s", dur(sh.iterDurNs), dur(iv))
		return
	}
	first := sh.outer[0]
	if first.CallNs != sh.trigStartNs && stats.Stalls == 0 {
		env.Violate("C09", "late-initial-evaluation", "cadence/"+c.Kind, "triggering started at %s but the first rate evaluation happened at %s", dur(sh.trigStartNs), dur(first.CallNs))
	}
	var sum uint64
	for k, call := range sh.outer {
		e := call.CallNs - first.CallNs
		if int64(k+1) > 1+e/iv {
			env.Violate("C09", "too-many-evaluations", "cadence/"+c.Kind, "evaluation %d happened %s after the first; at most %d are allowed by then (interval %s)", k, dur(e), 1+e/iv, dur(iv))
			break
		}
		if call.V > 0 {
			sum += uint64(call.V)
		}
	}
	// ticks come from one ticker: their timestamps lie one or more whole intervals apart, however late they are handled
	for k := 2; k < len(sh.outer); k++ {
		if d := sh.outer[k].ArgNs - sh.outer[k-1].ArgNs; d <= 0 || d%iv != 0 {
			env.Violate("C09", "tick-off-grid", "cadence/"+c.Kind, "tick %d is stamped %s after tick %d: not a whole number of intervals (%s)", k, dur(d), k-1, dur(iv))
			break
		}
	}
	got := sh.started + sh.dropped
	if c.Direct {
		got = sum
	}
	if got > sum {
		env.Violate("C09", "requests-created", "cadence/"+c.Kind, "rate evaluations sum to %d, but %d iterations were started and %d dropped", sum, sh.started, sh.dropped)
	}
	if stats.Stalls == 0 && len(c.EvalSleepNs) == 0 {
		limit := c.RunNs
		if limit%iv != 0 {
			want := 1 + limit/iv
			if int64(len(sh.outer)) != want {
				env.Violate("C09", "evaluation-count", "cadence/"+c.Kind, "%d rate evaluations in %s at interval %s, expected exactly %d", len(sh.outer), dur(limit), dur(iv), want)
			}
			if got != sum {
				env.Violate("C09", "requests-lost", "cadence/"+c.Kind, "rate evaluations sum to %d, but started %d + dropped %d = %d", sum, sh.started, sh.dropped, got)
			}
		}
	}
	// refinement: the pool must behave like the reference pool fed with exactly the evaluated values
	if stats.Stalls == 0 && len(c.EvalSleepNs) == 0 && !c.Direct && c.RunNs%iv != 0 {
		var at []int64
		var sizes []int
		for _, call := range sh.outer {
			at = append(at, call.CallNs)
			sizes = append(sizes, call.V)
		}
		mo := poolModel(c.Concurrency, 0, sizes, c.BodyNs, at, sh.trigStartNs+c.RunNs)
		if uint64(mo.started) != sh.started || mo.dropped != sh.dropped {
			for _, p := range []string{"C09", "C02"} {
				env.Violate(p, "pool-differs-from-reference", "cadence/model", "%d iterations started and %d dropped; a %d-worker reference pool given exactly the evaluated values (%s…) at their instants starts %d and drops %d (bodies %v)",
					sh.started, sh.dropped, c.Concurrency, fmtVals(sh.outer), mo.started, mo.dropped, c.BodyNs)
			}
		}
		env.Hit("h5.model_checked")
		if len(c.BodyNs) > 0 && mo.dropped > 0 {
			env.Hit("h5.model_checked_with_backlog")
		}
	}
	// each evaluation's value is that tick's request, unchanged: strictly between two evaluation instants no more
	// iterations can start than the last evaluation asked for, plus what free workers could still take from the
	// requests it superseded at that very instant (stall-free runs: a stalled ticking goroutine may sit between evaluating and requesting)
	if !c.Direct && uint64(len(sh.bodyBegin)) == sh.started && stats.Stalls == 0 {
		for j := 0; j < len(sh.outer); {
			t := sh.outer[j].CallNs
			k := j
			earlier := 0
			for k+1 < len(sh.outer) && sh.outer[k+1].CallNs == t {
				earlier += max(sh.outer[k].V, 0)
				k++
			}
			next := int64(math.MaxInt64)
			if k+1 < len(sh.outer) {
				next = sh.outer[k+1].CallNs
			}
			free, inside := c.Concurrency, 0
			for i, b := range sh.bodyBegin {
				if b < t && b+sh.bodyDur[i] > t {
					free--
				}
				if b > t && b < next {
					inside++
				}
			}
			allowed := max(sh.outer[k].V, 0) + min(max(free, 0), earlier)
			if inside > allowed {
				for _, p := range []string{"C09", "C02"} {
					env.Violate(p, "started-more-than-requested", "cadence/window", "%d iterations began strictly between the evaluations at %s and %s; the evaluation at %s asked for %d (%d more evaluated at the same instant before it, %d workers free then)",
						inside, dur(t), dur(next), dur(t), sh.outer[k].V, earlier, free)
				}
				break
			}
			j = k + 1
		}
		env.Hit("h5.window_starts_checked")
	}
	if sh.recorded != sh.started {
		env.Violate("C01", "count-mismatch", "h5", "%d bodies ran, %d results recorded", sh.started, sh.recorded)
	}
	env.Hit("h5.cadence_checked")
}

// h5Shape: C10 — piecewise-linear reference in exact integer arithmetic.
func h5Shape(env *Env, c *H5Cfg, sh *h5Shared) {
	if c.Dist != "none" || c.Jitter != 0 {
		return
	}
	type seg struct{ from, to, y0, y1 int64 } // [from,to) in ns relative to t0
	var segs []seg
	var total int64
	if c.Kind == "staged" {
		prev := int64(0)
		for _, s := range c.Stages {
			d := s.DurMs * ms
			segs = append(segs, seg{total, total + d, prev, int64(s.Target)})
			total += d
			prev = int64(s.Target)
		}
		if sh.ratesDurNs != total {
			env.Violate("C10", "wrong-total-duration", "shape/staged", "reported total duration %s, the stages sum to %s", dur(sh.ratesDurNs), dur(total))
		}
	} else {
		total = c.RampDurMs * ms
		to := int64(c.RampTo)
		if c.RampToUnitMs > 0 {
			to = to * c.RampUnitMs / c.RampToUnitMs // the end rate per tick of the start rate's duration (exact by construction)
			env.Hit("h5.ramp_mixed_units_accepted")
		}
		segs = []seg{{0, total, int64(c.RampFrom), to}}
		if sh.ratesDurNs != total {
			env.Violate("C10", "wrong-total-duration", "shape/ramp", "reported total duration %s, the ramp lasts %s", dur(sh.ratesDurNs), dur(total))
		}
	}
	if len(sh.outer) == 0 {
		return
	}
	t0 := sh.outer[0].ArgNs
	if c.Kind == "staged" && c.ExplicitStart {
		t0 = sh.stagedT0
	}
	within := func(v int64, sg seg, rel int64) (bool, string) {
		d := sg.to - sg.from
		if d == 0 {
			return false, ""
		}
		// exact value as a rational: y0 + (rel-from)*(y1-y0)/d ; allow |v - exact| <= 1
		num := (rel - sg.from) * (sg.y1 - sg.y0)
		lo, hi := sg.y0, sg.y1
		if lo > hi {
			lo, hi = hi, lo
		}
		if v < lo || v > hi {
			return false, fmt.Sprintf("outside the segment's targets [%d,%d]", lo, hi)
		}
		diff := (v-sg.y0)*d - num // (v - exact) * d
		if diff < 0 {
			diff = -diff
		}
		if diff > d {
			return false, fmt.Sprintf("more than 1 away from the interpolation %d+%d/%d", sg.y0, num, d)
		}
		return true, ""
	}
	lastSeg, lastV, lastRel := -1, int64(0), int64(-1)
	for qi, q := range sh.outer {
		rel := q.ArgNs - t0
		v := int64(q.V)
		if rel < lastRel {
			return // query times must be non-decreasing for the statement to apply
		}
		var cands []int
		for i, sg := range segs {
			if rel >= sg.from && rel < sg.to {
				cands = append(cands, i)
			}
			if rel == sg.to && sg.to > sg.from { // exactly on the end of a segment: either side owns the instant
				cands = append(cands, i)
			}
		}
		after := rel >= total
		okAny, why := false, ""
		segHit := -1
		for _, i := range cands {
			if ok, w := within(v, segs[i], rel); ok {
				okAny, segHit = true, i
				break
			} else {
				why = w
			}
		}
		if !okAny && after && v == 0 {
			okAny = true
		}
		if !okAny && len(cands) == 0 && !after {
			// rel < 0: before the profile starts (explicit start in the future is not generated)
			continue
		}
		if !okAny {
			exp := "0 (profile elapsed)"
			if len(cands) > 0 {
				exp = why
			}
			env.Violate("C10", "off-profile", "shape/"+c.Kind, "query %d at +%s returned %d: %s (%s)", qi, dur(rel), v, exp, (h5{}).Describe(c))
			return
		}
		if segHit >= 0 && segHit == lastSeg && rel > lastRel {
			sg := segs[segHit]
			if (sg.y1 >= sg.y0 && v < lastV) || (sg.y1 <= sg.y0 && v > lastV) {
				env.Violate("C10", "not-monotone", "shape/"+c.Kind, "within one segment (%d→%d) the value went from %d to %d", sg.y0, sg.y1, lastV, v)
				return
			}
		}
		lastSeg, lastV, lastRel = segHit, v, rel
		if !after {
			env.Hit("h5.shape_queries")
		}
	}
}

func npdf(x, mu, sigma float64) float64 {
	z := (x - mu) / sigma
	return math.Exp(-z*z/2) / (sigma * math.Sqrt(2*math.Pi))
}

func ncdf(x, mu, sigma float64) float64 { return 0.5 * (1 + math.Erf((x-mu)/(sigma*math.Sqrt2))) }

// h5Gauss: C11.
func h5Gauss(env *Env, c *H5Cfg, sh *h5Shared) {
	if c.Dist != "none" || c.Jitter != 0 {
		return
	}
	rep, f := c.RepeatMs*ms, c.FreqMs*ms
	mu, sigma := float64(c.PeakMs*ms), float64(c.StddevMs*ms)
	epochAbs := simrt.Epoch
	type win struct {
		start int64 // ns since Epoch of the window start
		calls []h5Call
	}
	wins := map[int64]*win{}
	var order []int64
	for _, q := range sh.outer {
		if q.V < 0 {
			env.Violate("C11", "negative-rate", "gaussian", "tick at +%s requested %d", dur(q.ArgNs), q.V)
			return
		}
		t := epochAbs.Add(time.Duration(q.ArgNs))
		ws := int64(t.Truncate(time.Duration(rep)).Sub(epochAbs))
		w := wins[ws]
		if w == nil {
			w = &win{start: ws}
			wins[ws] = w
			order = append(order, ws)
		}
		w.calls = append(w.calls, q)
	}
	steps := rep / f
	avg := 1.0
	if len(c.Weights) > 0 {
		s := 0.0
		for _, w := range c.Weights {
			s += w
		}
		avg = s / float64(len(c.Weights))
	}
	massAll := ncdf(float64(rep), mu, sigma) - ncdf(0, mu, sigma)
	for _, ws := range order {
		w := wins[ws]
		// every evaluated tick asks for its share of the bell, whether or not its neighbours were evaluated: a tick
		// whose share is several iterations does not ask for (almost) nothing. (Lower bound only, against the true
		// mass of the window: the known normalisation defect F6 makes f1 ask for more, never for less; one iteration
		// may be pending in the fractional carry.)
		if massAll > 0 {
			wgt := 1.0
			if n := int64(len(c.Weights)); n > 0 {
				cycle := epochAbs.Add(time.Duration(ws)).Truncate(time.Duration(rep * n))
				wgt = c.Weights[(epochAbs.Add(time.Duration(ws)).Sub(cycle))/time.Duration(rep)] / avg
			}
			for _, q := range w.calls {
				share := c.Volume * wgt * float64(f) * npdf(float64(q.ArgNs-ws), mu, sigma) / massAll
				if share >= 4 && float64(q.V) < share/2-1 {
					env.Violate("C11", "tick-far-below-profile", "gaussian/tick", "window at +%s: the tick at +%s requested %d, its share of the configured volume is %.1f (%s)",
						dur(ws), dur(q.ArgNs-ws), q.V, share, (h5{}).Describe(c))
					return
				}
			}
		}
		if int64(len(w.calls)) != steps {
			// incomplete window (run started or ended inside it, or ticks were lost while the loop was held up): the
			// volume clause needs every tick, the peak clause does not - no tick asks for more than one above the
			// tick nearest the peak, if that one was evaluated
			pk := -1
			for i, q := range w.calls {
				if math.Abs(float64(q.ArgNs-ws)-mu) <= float64(f)/2 {
					pk = i
				}
			}
			if pk >= 0 {
				for _, q := range w.calls {
					if q.V > w.calls[pk].V+1 {
						env.Violate("C11", "peak-not-maximal", "gaussian/peak/incomplete-window", "window at +%s (%d of %d ticks evaluated): a tick at +%s requested %d, the tick nearest the peak requested %d (%s)",
							dur(ws), len(w.calls), steps, dur(q.ArgNs-ws), q.V, w.calls[pk].V, (h5{}).Describe(c))
						return
					}
				}
				env.Hit("h5.gauss_incomplete_window_peak_checked")
			}
			continue
		}
		if w.calls[0].ArgNs-ws >= f || ws+rep-w.calls[len(w.calls)-1].ArgNs > f {
			continue
		}
		weight := 1.0
		if n := int64(len(c.Weights)); n > 0 {
			cycle := epochAbs.Add(time.Duration(ws)).Truncate(time.Duration(rep * n))
			idx := (epochAbs.Add(time.Duration(ws)).Sub(cycle)) / time.Duration(rep)
			weight = c.Weights[idx] / avg
		}
		target := c.Volume * weight
		var sum float64
		var riemann float64
		peakIdx, peakDist := 0, math.MaxFloat64
		for i, q := range w.calls {
			sum += float64(q.V)
			x := float64(q.ArgNs - ws)
			riemann += float64(f) * npdf(x, mu, sigma)
			if d := math.Abs(x - mu); d < peakDist {
				peakIdx, peakDist = i, d
			}
		}
		mass := ncdf(float64(rep), mu, sigma) - ncdf(0, mu, sigma)
		edge := func(a, b float64) float64 { // max of the density on [a,b]
			if mu >= a && mu <= b {
				return npdf(mu, mu, sigma)
			}
			return math.Max(npdf(a, mu, sigma), npdf(b, mu, sigma))
		}
		if mass <= 0 {
			continue
		}
		D := math.Abs(riemann/mass-1) + 1.5*float64(f)*(edge(0, float64(f))+edge(float64(rep-f), float64(rep)))/mass
		tol := 1 + target*D + 1e-6*target
		if math.Abs(sum-target) > tol {
			sig := "gaussian/volume"
			// known finding F6, identified by its input class and its exact effect: the last tick of the window
			// [repeat-frequency, repeat] holds a sizeable share of the bell's mass inside the window, and the total
			// is what leaving that tick out of the normalisation yields (volume * sum(f*pdf) / (CDF(repeat-f)-CDF(0)))
			if short := ncdf(float64(rep-f), mu, sigma) - ncdf(0, mu, sigma); short > 0 && (mass-short)/mass > 0.15 &&
				math.Abs(sum-target*riemann/short) <= 2+1e-6*target {
				sig = "gaussian/volume/last-tick-mass-over-15pct+total-matches-normalisation-without-last-tick"
			}
			env.Violate("C11", "window-volume", sig, "window at +%s: requested %.0f, configured volume %.2f (weight factor %.3f); allowed deviation %.2f (discretisation %.4f) (%s)",
				dur(ws), sum, target, weight, tol, D, (h5{}).Describe(c))
			return
		}
		pv := w.calls[peakIdx].V
		for _, q := range w.calls {
			if q.V > pv+1 {
				env.Violate("C11", "peak-not-maximal", "gaussian/peak", "window at +%s: a tick at +%s requested %d, the tick nearest the peak requested %d", dur(ws), dur(q.ArgNs-ws), q.V, pv)
				return
			}
		}
		env.Hit("h5.gauss_windows")
		if weight != 1 {
			env.Hit("h5.gauss_weighted_windows")
		}
	}
}

// h5Dist: C12.
func h5Dist(env *Env, c *H5Cfg, sh *h5Shared) {
	f := c.FreqMs * ms
	n := int(f / (100 * ms))
	passthrough := c.Dist == "none" || f <= 100*ms
	if want := h5Interval(c); sh.iterDurNs != want {
		env.Violate("C12", "wrong-subtick-interval", "dist/"+c.Dist, "distribution %s over an interval of %s ticks every %s, expected %s (sub-ticks of 100 ms; intervals of 100 ms or less and distribution none unchanged)",
			c.Dist, dur(f), dur(sh.iterDurNs), dur(want))
		return
	}
	if passthrough {
		if len(sh.inner) != len(sh.outer) {
			env.Violate("C12", "passthrough-broken", "dist/"+c.Dist, "%d underlying evaluations for %d ticks (interval %s, distribution %s)", len(sh.inner), len(sh.outer), dur(f), c.Dist)
			return
		}
		for i := range sh.outer {
			if sh.outer[i].V != sh.inner[i].V {
				env.Violate("C12", "passthrough-broken", "dist/"+c.Dist, "tick %d: underlying rate %d, passed on as %d", i, sh.inner[i].V, sh.outer[i].V)
				return
			}
		}
		if len(sh.outer) > 0 {
			env.Hit("h5.dist_cycles")
		}
		return
	}
	for cyc := 0; (cyc+1)*n <= len(sh.outer); cyc++ {
		vals := sh.outer[cyc*n : (cyc+1)*n]
		if cyc >= len(sh.inner) {
			env.Violate("C12", "underlying-not-evaluated", "dist/"+c.Dist, "cycle %d of %d sub-ticks completed without an evaluation of the underlying rate", cyc, n)
			return
		}
		// the underlying evaluation of this cycle happens inside its first sub-tick
		if sh.inner[cyc].Seq > vals[0].Seq || (cyc > 0 && sh.inner[cyc].Seq < sh.outer[cyc*n-1].Seq) {
			env.Violate("C12", "underlying-evaluated-off-cycle", "dist/"+c.Dist, "cycle %d: the underlying rate was not evaluated exactly once at the start of the cycle", cyc)
			return
		}
		sum, mn, mx := 0, math.MaxInt, math.MinInt
		for _, v := range vals {
			if v.V < 0 {
				env.Violate("C12", "negative-subtick", "dist/"+c.Dist, "cycle %d: a sub-tick value is %d", cyc, v.V)
				return
			}
			sum += v.V
			mn, mx = min(mn, v.V), max(mx, v.V)
		}
		under := sh.inner[cyc].V
		if sum != under {
			env.Violate("C12", "cycle-sum", "dist/"+c.Dist, "cycle %d of %d sub-ticks: values sum to %d, the underlying rate produced %d (%s)", cyc, n, sum, under, fmtVals(vals))
			return
		}
		if c.Dist == "regular" && mx-mn > 1 {
			env.Violate("C12", "regular-uneven", "dist/regular", "cycle %d: regular distribution of %d over %d sub-ticks ranges from %d to %d", cyc, under, n, mn, mx)
			return
		}
		if under > 0 {
			env.Hit("h5.dist_cycles")
		}
	}
	want := (len(sh.outer) + n - 1) / n
	if len(sh.inner) != want {
		env.Violate("C12", "underlying-evaluation-count", "dist/"+c.Dist, "%d sub-ticks in cycles of %d need %d evaluations of the underlying rate, saw %d", len(sh.outer), n, want, len(sh.inner))
	}
}

// h5ConstDist: C12 on the constant trigger as composed by its builder. The underlying (possibly jittered) rate is
// produced once per cycle, so within a cycle the regular distribution stays even whatever the jitter; without
// jitter every cycle sums to the configured rate.
func h5ConstDist(env *Env, c *H5Cfg, sh *h5Shared) {
	n := int(c.FreqMs / 100)
	if n < 2 {
		return
	}
	q := c.Jitter / 100
	for cyc := 0; (cyc+1)*n <= len(sh.outer); cyc++ {
		vals := sh.outer[cyc*n : (cyc+1)*n]
		sum, mn, mx := 0, math.MaxInt, math.MinInt
		for _, v := range vals {
			if v.V < 0 {
				env.Violate("C12", "negative-subtick", "dist/constant", "cycle %d: a sub-tick value is %d", cyc, v.V)
				return
			}
			sum += v.V
			mn, mx = min(mn, v.V), max(mx, v.V)
		}
		if c.Dist == "regular" && mx-mn > 1 {
			env.Violate("C12", "regular-uneven", "dist/constant", "cycle %d of the constant rate %d/%dms (jitter %g%%, regular distribution): sub-tick values range from %d to %d (%s)",
				cyc, c.ConstRate, c.FreqMs, c.Jitter, mn, mx, fmtVals(vals))
			return
		}
		if q == 0 && sum != c.ConstRate {
			env.Violate("C12", "cycle-sum", "dist/constant", "cycle %d: values sum to %d, the constant rate is %d", cyc, sum, c.ConstRate)
			return
		}
		env.Hit("h5.dist_cycles")
	}
}

func fmtVals(vs []h5Call) string {
	var p []string
	for i, v := range vs {
		if i > 30 {
			p = append(p, "…")
			break
		}
		p = append(p, fmt.Sprint(v.V))
	}
	return strings.Join(p, " ")
}

// h5Jitter: C13.
func h5Jitter(env *Env, c *H5Cfg, sh *h5Shared) {
	q := c.Jitter / 100
	if len(sh.inner) != len(sh.outer) {
		env.Violate("C13", "rate-evaluation-count", "jitter", "%d ticks but %d evaluations of the un-jittered rate", len(sh.outer), len(sh.inner))
		return
	}
	rmax := 0.0
	for _, v := range c.Rates {
		rmax = math.Max(rmax, float64(v))
	}
	for _, v := range sh.inner {
		rmax = math.Max(rmax, float64(v.V))
	}
	bound := (q*rmax + 0.5) / (1 - q)
	var R, O float64
	for i := range sh.outer {
		r, o := float64(sh.inner[i].V), float64(sh.outer[i].V)
		if sh.outer[i].V < 0 {
			env.Violate("C13", "negative-output", "jitter", "tick %d: output %d", i, sh.outer[i].V)
			return
		}
		if c.Jitter == 0 {
			if o != r {
				env.Violate("C13", "zero-jitter-not-identity", "jitter", "tick %d: rate %v became %v with jitter 0", i, r, o)
				return
			}
			continue
		}
		carry := R - O
		req := r + carry
		if req <= 0 {
			if o != 0 && req < -0.5 {
				env.Violate("C13", "output-with-negative-balance", "jitter", "tick %d: rate+carry is %.2f but %v was requested", i, req, o)
				return
			}
		} else if math.Abs(o-req) > q*req+0.5+1e-9 {
			env.Violate("C13", "variation-out-of-range", "jitter", "tick %d: rate %v + carry %.2f = %.2f, output %v deviates by more than %.1f%% + rounding", i, r, carry, req, o, c.Jitter)
			return
		}
		R += r
		O += o
		if math.Abs(R-O) > bound+1e-6 {
			env.Violate("C13", "total-drifts", "jitter", "after %d ticks the jittered total %.0f differs from the rate total %.0f by more than %.2f (jitter %.1f%%, max rate %.0f)", i+1, O, R, bound, c.Jitter, rmax)
			return
		}
		env.Hit("h5.jitter_ticks")
	}
}
