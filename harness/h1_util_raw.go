package verifharness

import (
	"strings"

	"github.com/form3tech-oss/f1/v2/internal/metrics"
)

type metricSeries struct {
	Family string
	Labels map[string]string
	Count  uint64
	Sum    float64
}

func gather(m *metrics.Metrics) ([]metricSeries, string) {
	if m == nil {
		return nil, ""
	}
	fams, err := m.Registry.Gather()
	if err != nil {
		return nil, err.Error()
	}
	var out []metricSeries
	for _, f := range fams {
		if !strings.HasPrefix(f.GetName(), "form3_loadtest_") {
			continue // the process-wide registry also carries the Go runtime collectors
		}
		for _, mt := range f.GetMetric() {
			s := metricSeries{Family: f.GetName(), Labels: map[string]string{}}
			for _, lp := range mt.GetLabel() {
				s.Labels[lp.GetName()] = lp.GetValue()
			}
			if sm := mt.GetSummary(); sm != nil {
				s.Count, s.Sum = sm.GetSampleCount(), sm.GetSampleSum()
			}
			out = append(out, s)
		}
	}
	return out, ""
}

func isProgressLine(s string) bool {
	return strings.Contains(s, "✔") && strings.Contains(s, "✘") && !strings.Contains(s, "Setup") && !strings.Contains(s, "Teardown")
}

// countProgress counts progress reports that appeared after the first n records (logs + printed lines).
func countProgress(r *Recorder, n int) int {
	r.mu.Lock()
	defer r.mu.Unlock()
	cnt := 0
	seen := 0
	// records are appended in log order to either Logs or Out; count per stream beyond what existed
	_ = seen
	for _, l := range r.Logs {
		if l.Msg == "progress" && l.Seq > r.markSeq {
			cnt++
		}
	}
	for _, p := range r.Out {
		if isProgressLine(p.Text) && p.Seq > r.markSeq {
			cnt++
		}
	}
	return cnt
}
