//go:build !noh2

package verifharness

import (
	"encoding/json"
	"fmt"
	"strconv"
	"strings"
	"time"

	"github.com/form3tech-oss/f1/v2/internal/progress"
	"github.com/form3tech-oss/f1/v2/internal/verifsim/simrt"
)

type H2Tick struct {
	GapNs int64 `json:"gap"`
	N     int   `json:"n"`
}

type H2Cfg struct {
	Concurrency   int      `json:"concurrency"`
	MaxIterations uint64   `json:"max_iterations,omitempty"`
	Ticks         []H2Tick `json:"ticks"`
	BodyNs        []int64  `json:"body_ns"` // duration of the k-th started iteration (cyclic)
	CancelAtNs    int64    `json:"cancel_at,omitempty"`
	CancelAtStep  uint64   `json:"cancel_step,omitempty"`
	FinalCancelNs int64    `json:"final_cancel,omitempty"` // cancel this long after the last tick (0: only if no other stop)
	TieFree       bool     `json:"tie_free,omitempty"`
}

type h2Body struct {
	Idx              int
	Iter             string
	BeginNs, EndNs   int64
	BeginSeq, EndSeq uint64
	Ended            bool
}

type h2Tick struct {
	Idx              int
	N                int
	EnterNs          int64
	EnterSeq         uint64
	ExitSeq          uint64
	DroppedBefore    uint64
	DroppedAfter     uint64
	StartedAtExit    int
	StartedAtEnter   int
	CancelledAtEnter bool
	LimitAtEnter     bool
}

type h2Shared struct {
	stats        *progress.Stats
	bodies       []*h2Body
	ticks        []*h2Tick
	inflight     int
	hwm          int
	cancelled    bool
	cancelNs     int64
	cancelSeq    uint64
	startNs      int64
	waitBeginNs  int64
	doneNs       int64
	limitReached bool
	// the limit was reached before the harness cancelled anything: the pool stopped because of the limit
	limitBeforeCancel bool
	total             progress.Snapshot
	leftover          []string
	finished          bool
}

// begin/end do the ground-truth bookkeeping atomically (this file has no scheduling points).
func (sh *h2Shared) begin(env *Env, iter string) *h2Body {
	b := &h2Body{Idx: len(sh.bodies), Iter: iter, BeginNs: env.Sim.Now(), BeginSeq: env.Sim.Step()}
	sh.bodies = append(sh.bodies, b)
	sh.inflight++
	if sh.inflight > sh.hwm {
		sh.hwm = sh.inflight
	}
	env.Log("body-begin", int64(b.Idx), 0, iter)
	return b
}

func (sh *h2Shared) end(env *Env, b *h2Body) {
	sh.inflight--
	b.EndNs, b.EndSeq, b.Ended = env.Sim.Now(), env.Sim.Step(), true
	env.Log("body-end", int64(b.Idx), 0, b.Iter)
}

type h2 struct{}

func init() { register(h2{}) }

func (h2) Name() string    { return "H2" }
func (h2) Props() []string { return []string{"C02", "C03", "C04"} }

func (h2) Decode(raw json.RawMessage) (any, error) {
	var c H2Cfg
	err := json.Unmarshal(raw, &c)
	return &c, err
}

func (h2) Describe(cfg any) string {
	c := cfg.(*H2Cfg)
	var ns []string
	for _, t := range c.Ticks {
		ns = append(ns, strconv.Itoa(t.N))
	}
	return fmt.Sprintf("H2 c=%d limit=%d ticks=[%s] bodies=%d cancel=%s/%d/%s", c.Concurrency, c.MaxIterations, strings.Join(ns, ","), len(c.BodyNs),
		dur(c.CancelAtNs), c.CancelAtStep, dur(c.FinalCancelNs))
}

func (h2) Gen(prop, tier string, r *simrt.Rng) (any, simrt.Config) {
	c := &H2Cfg{Concurrency: 1 + r.Intn(6)}
	thorough := tier == "thorough"
	if prop == "C03" && r.Intn(3) == 0 {
		c.Concurrency = simrt.Pick(r, 8, 16, 32)
	}
	nt := 1 + r.Intn(15)
	if thorough {
		nt = 1 + r.Intn(40)
	}
	iv := int64(simrt.Pick(r, 10, 20, 50, 100)) * ms
	regular := r.Intn(2) == 0
	var total int64
	for i := 0; i < nt; i++ {
		g := iv
		if !regular {
			g = int64(1+r.Intn(100)) * ms
		}
		if i == 0 {
			g = 0
		}
		total += g
		n := r.Intn(2*c.Concurrency + 1)
		if r.Intn(8) == 0 {
			n = 0
		}
		c.Ticks = append(c.Ticks, H2Tick{GapNs: g, N: n})
	}
	// body durations: distinct µs offsets so that completions never coincide with ticks, the stop, or each other
	nb := 1 + r.Intn(12)
	for i := 0; i < nb; i++ {
		base := int64(simrt.Pick(r, 0, 1, 5, 20, 60, 150, 400)) * ms
		c.BodyNs = append(c.BodyNs, base+int64(1+2*i)*1009+int64(r.Intn(500))*2)
	}
	c.TieFree = true
	if r.Intn(4) == 0 {
		// ties profile: completions coincide with ticks (regular ticks, bodies lasting whole tick multiples)
		c.TieFree = false
		total = 0
		for i := range c.Ticks {
			if i > 0 {
				c.Ticks[i].GapNs = iv
				total += iv
			}
		}
		for i := range c.BodyNs {
			c.BodyNs[i] = iv * int64(r.Intn(4))
		}
	}
	switch r.Intn(6) {
	case 0:
		c.CancelAtNs = r.Int63n(total+50*ms) + 1
		if c.CancelAtNs%ms == 0 {
			c.CancelAtNs += 333
		}
	case 1:
		c.CancelAtStep = uint64(1 + r.Intn(3000))
		c.TieFree = false
	case 2, 3:
		lim := simrt.Pick(r, 1, 2, max(c.Concurrency-1, 1), c.Concurrency, c.Concurrency+1, 7, 20)
		c.MaxIterations = uint64(lim)
		c.FinalCancelNs = int64(1+r.Intn(300))*ms + 777
	default:
		c.FinalCancelNs = int64(r.Intn(300))*ms + 555
	}
	if c.FinalCancelNs == 0 {
		c.FinalCancelNs = 500*ms + 999
	}
	sc := simrt.Config{
		Strategy: simrt.Pick(r, "sticky", "sticky", "rw", "pct", "delay"), SwitchProb: simrt.Pick(r, 0.01, 0.05, 0.2),
		PCTDepth: 1 + r.Intn(4), PCTSteps: 1500, DelayMod: 3 + r.Intn(5), MaxSimNs: int64(10 * time.Minute), MaxSteps: 400000,
	}
	switch r.Intn(6) {
	case 0:
		sc.StallPermille, sc.StallMaxMs, sc.MaxStalls = simrt.Pick(r, 2, 10), simrt.Pick(r, 5, 80), 1+r.Intn(3)
	case 1:
		// a worker (or the ticking side) pre-empted in the middle of the pending-jobs protocol for longer than a tick:
		// the only way a tick can land between two steps of one worker, since simulated time stands still while
		// anything is runnable
		sc.StallPermille, sc.StallMaxMs, sc.MaxStalls = simrt.Pick(r, 20, 60, 150), simrt.Pick(r, 15, 60, 130), 1+r.Intn(6)
		sc.StallSites = simrt.Pick(r, "jobCounter.", "jobCounter.|TriggerPool.run|TriggerPool.waitForNewJobs|TriggerPool.sendJobsForExecution")
	}
	return c, sc
}

func (h2) NonTrivial(prop string, env *Env, st simrt.Stats) bool {
	switch prop {
	case "C04":
		return env.Cover["h2.model_checked"] > 0 && env.Cover["h2.bodies"] >= 2
	case "C02":
		return env.Cover["h2.conservation_checked"] > 0 && (env.Cover["h2.superseded_ticks"] > 0 || env.Cover["h2.stop_with_pending"] > 0 || env.Cover["h2.model_checked"] > 0)
	}
	return env.Cover["h2.bodies"] >= 2
}

// h2Model is the reference: an ideal pool of c servers with replace-on-tick semantics, driven in
// simulated time by the tick instants and sizes and the per-start body durations.
func h2Model(c *H2Cfg, tickAt []int64, stopAt int64) h2ModelOut {
	sizes := make([]int, len(c.Ticks))
	for i, t := range c.Ticks {
		sizes[i] = t.N
	}
	return poolModel(c.Concurrency, c.MaxIterations, sizes, c.BodyNs, tickAt, stopAt)
}

func (h h2) Run(env *Env, cfg any) {
	c := cfg.(*H2Cfg)
	sh := &h2Shared{}
	env.Sim.GoMain("ticker", func() { h2Main(env, c, sh) })
	env.Sim.Run()
	stats := env.Sim.Stats()
	if !sh.finished {
		if stats.TimeCapHit {
			env.Violate("C02", "pool-never-completed", "pool/"+blockedSig(stats.Blocked), "the pool never completed after triggering stopped: %s", strings.Join(stats.Blocked, "; "))
		}
		env.PrecondNotMet("C03")
		env.PrecondNotMet("C04")
		return
	}
	env.Cover = map[string]uint64{"h2.bodies": uint64(len(sh.bodies))}
	started := uint64(len(sh.bodies))
	dropped := sh.total.DroppedIterationCount
	done := sh.total.SuccessfulIterationDurations.Count + sh.total.FailedIterationDurations.Count

	// ---- C03 / C04 at component level
	if c.MaxIterations > 0 && started > c.MaxIterations {
		env.Violate("C03", "limit-exceeded", "pool", "%d invocations with max-iterations %d (c=%d)", started, c.MaxIterations, c.Concurrency)
	}
	seen := map[string]int{}
	for _, b := range sh.bodies {
		seen[b.Iter]++
	}
	for _, k := range sortedKeys(seen) {
		v := seen[k]
		if v > 1 {
			env.Violate("C03", "duplicate-id", "pool", "iteration id %q observed by %d invocations", k, v)
		}
	}
	for i := uint64(1); i <= started; i++ {
		if seen[strconv.FormatUint(i, 10)] == 0 {
			env.Violate("C03", "id-gap", "pool", "%d invocations but id %d never observed", started, i)
			break
		}
	}
	if sh.hwm > c.Concurrency {
		env.Violate("C04", "too-many-in-flight", "pool", "%d iterations in flight with %d workers", sh.hwm, c.Concurrency)
	}
	if done != started {
		env.Violate("C01", "count-mismatch", "pool", "%d invocations, %d recorded results after the pool completed", started, done)
	}

	// ---- C02 oracle 1: conservation
	var certain, racing uint64
	var sumTickDrops uint64
	limitSeen := false
	for i, t := range sh.ticks {
		d := t.DroppedAfter - t.DroppedBefore
		sumTickDrops += d
		prevN := uint64(0)
		if i > 0 {
			prevN = uint64(sh.ticks[i-1].N)
		}
		duringCancel := sh.cancelled && sh.cancelSeq >= t.EnterSeq && sh.cancelSeq <= t.ExitSeq
		// (a job taken before the previous tick may begin its body after it, so starts observed in between
		// cannot be subtracted soundly: the bound is the previous tick's size)
		// once triggering has been stopped the stop path records its drops whenever it gets to run (it may be
		// held up), so drops seen in the window of a later tick are not that tick's
		afterCancel := sh.cancelled && sh.cancelSeq <= t.ExitSeq
		if d > prevN && !duringCancel && !afterCancel {
			env.Violate("C02", "tick-dropped-more-than-pending", "pool/tick", "tick %d reported %d dropped, but the previous tick only requested %d", i, d, prevN)
		}
		if d > 0 {
			env.Hit("h2.superseded_ticks")
		}
		switch {
		case t.CancelledAtEnter:
			// issued after cancel() returned: contributes nothing (drops observed in its window belong to the
			// stop path, see above)
		case t.LimitAtEnter:
			limitSeen = true
		case duringCancel:
			racing += uint64(t.N)
		default:
			if c.MaxIterations > 0 && sh.limitReached {
				// the limit may have been reached while the tick was in flight: its requests may be discarded
				racing += uint64(t.N)
				_ = limitSeen
			} else {
				certain += uint64(t.N)
			}
		}
	}
	got := started + dropped
	if c.MaxIterations > 0 && sh.limitReached {
		if started != c.MaxIterations {
			env.Violate("C02", "limit-reached-early", "pool/limit", "pool reports max iterations reached after %d of %d invocations", started, c.MaxIterations)
		}
		if got > certain+racing {
			env.Violate("C02", "requests-created", "pool/conservation", "requested at most %d, but started %d + dropped %d", certain+racing, started, dropped)
		}
	} else {
		if got < certain || got > certain+racing {
			cls := "requests-lost"
			if got > certain+racing {
				cls = "requests-created"
			}
			env.Violate("C02", cls, "pool/conservation", "ticks requested %d (+%d racing the stop), but started %d + dropped %d = %d (c=%d, cancelled at %s)",
				certain, racing, started, dropped, got, c.Concurrency, dur(sh.cancelNs))
		}
	}
	if sh.limitBeforeCancel {
		env.Hit("h2.limit_stopped_pool")
		if dropped > sumTickDrops {
			env.Violate("C02", "limit-discard-reported-dropped", "pool/limit", "the max-iterations limit stopped the pool; %d requests were reported dropped outside any tick (pending requests must be discarded silently)", dropped-sumTickDrops)
		}
	}
	env.Hit("h2.conservation_checked")
	if dropped > sumTickDrops {
		env.Hit("h2.stop_with_pending")
	}

	// ---- C02 oracle 2: refinement against the ideal pool (tie-free, stall-free, time-based stop)
	if c.TieFree && stats.Stalls == 0 && c.CancelAtStep == 0 {
		var tickAt []int64
		tie := false
		for _, t := range sh.ticks {
			tickAt = append(tickAt, t.EnterNs)
			if sh.cancelled && t.EnterNs == sh.cancelNs {
				tie = true
			}
		}
		stopAt := int64(-1)
		if sh.cancelled {
			stopAt = sh.cancelNs
		}
		if !tie {
			mo := h2Model(c, tickAt, stopAt)
			if uint64(mo.started) > started {
				// an ideal pool starts more: some worker stayed idle although requests were pending
				env.Violate("C04", "worker-idle-with-pending-requests", "pool/model", "started %d iterations; a %d-worker pool that uses every idle worker starts %d with the same ticks and body durations (dropped %d vs %d)",
					started, c.Concurrency, mo.started, dropped, mo.dropped)
			}
			if uint64(mo.started) != started || mo.dropped != dropped {
				env.Violate("C02", "differs-from-reference-pool", "pool/model", "started %d dropped %d; an ideal %d-worker pool with the same ticks and body durations starts %d and drops %d (limit %d reached=%v/%v, stop at %s)",
					started, dropped, c.Concurrency, mo.started, mo.dropped, c.MaxIterations, sh.limitReached, mo.limitHit, dur(stopAt))
			} else {
				for i, t := range sh.ticks {
					if i < len(mo.perTick) && t.DroppedAfter-t.DroppedBefore != mo.perTick[i] && !(sh.cancelled && t.EnterNs >= sh.cancelNs) && !mo.limitHit {
						env.Violate("C02", "tick-drop-differs-from-reference", "pool/model", "tick %d reported %d dropped, the reference pool drops %d there", i, t.DroppedAfter-t.DroppedBefore, mo.perTick[i])
						break
					}
				}
			}
			env.Hit("h2.model_checked")
			if mo.limitHit {
				env.Hit("h2.model_limit_hit")
			}
		}
	}
	if len(sh.leftover) > 0 {
		env.Violate("C05", "goroutine-left", "leak/"+leakSig(sh.leftover), "pool goroutines remain after completion: %s", strings.Join(sh.leftover, " | "))
	}
}
