#!/bin/bash
# tools/benignval.sh <id> <patch.diff> [meta.txt] [props…]
# Runs the quick checks against a behaviour-preserving refactoring of f1 (in a private worktree of /repo HEAD).
# Every check must exit 0: an alarm here is a false alarm of the machinery. Kept as benign/<id>/.
set -u
cd "$(dirname "$0")/.." || exit 2
id=$1; patch=$(readlink -f "$2"); meta=${3:-}; shift; shift; [ $# -gt 0 ] && shift
props=${*:-$(python3 -c "import json;print(' '.join(c['property_id'] for c in json.load(open('MANIFEST.json'))['checks']))")}
wt=/tmp/benignval/wt-$id; out=/tmp/benignval/out-$id
git -C /repo worktree remove --force "$wt" 2>/dev/null; rm -rf "$wt" "$out"; mkdir -p /tmp/benignval
git -C /repo worktree add -q --detach "$wt" HEAD || exit 2
( cd "$wt" && git apply "$patch" ) || { echo "PATCH DOES NOT APPLY"; git -C /repo worktree remove --force "$wt"; exit 2; }
mkdir -p benign/$id; cp "$patch" benign/$id/patch.diff; [ -n "$meta" ] && [ -f "$meta" ] && cp "$meta" benign/$id/notes.txt
: > benign/$id/result.txt
alarms=0
for p in $props; do
  o=$(VERIF_REPO=$wt VERIF_OUT=$out ./check "$p" --tier quick 2>&1); rc=$?
  line="$p rc=$rc $(echo "$o" | grep -E '^property=' | cut -c1-160)"
  echo "$line" | tee -a benign/$id/result.txt
  if [ $rc -ne 0 ]; then alarms=$((alarms+1)); echo "$o" | grep -E "^VIOLATION|^  oracle|process crashed" | sed "s#$out#<out>#" | head -6 | tee -a benign/$id/result.txt; mkdir -p benign/$id/replays; cp -r $out/replays/$p benign/$id/replays/ 2>/dev/null; fi
done
echo "alarms=$alarms" | tee -a benign/$id/result.txt
git -C /repo worktree remove --force "$wt"; rm -rf "$wt" "$out"
exit $((alarms>0))
