#!/bin/bash
# Runs every claimed check once (tier from $1, default quick) and prints one status line per property.
cd "$(dirname "$0")/.." || exit 2
tier=${1:-quick}
rc_all=0
for p in $(python3 -c "import json;print(' '.join(c['property_id'] for c in json.load(open('MANIFEST.json'))['checks']))"); do
  out=$(./check "$p" --tier "$tier" 2>&1); rc=$?
  echo "$p rc=$rc $(echo "$out" | grep '^property=' | cut -c1-200)"
  if [ $rc -ne 0 ]; then echo "$out" | grep -v '^    ' | head -20; rc_all=1; fi
done
exit $rc_all
