#!/usr/bin/env python3
"""Validates a seeded property-breaking change delivered by a sub-agent and runs the checks against it.

  tools/seedval.py <PROP> <X> [--checks C01,C05] [--budget S] [--skip-validate]

Input : /tmp/seedwt/<PROP>.out/<X>.patch.diff, <X>.demo/, <X>.meta.txt
Steps : (1) scratch worktree of /repo HEAD: apply patch, build, existing suite must pass (one retry for the
            known timing flakes), demo must FAIL; (2) same worktree without the patch: demo must PASS;
        (3) apply the patch to /repo, run the property's quick check (and any --checks), undo it at once;
        (4) keep it as /verif/seeded/<PROP>-<X>/ {patch.diff, demo/, meta.json}.
"""
import argparse
import json
import os
import re
import shutil
import subprocess
import sys
import time

TMPBASE = os.environ.get("SEEDVAL_TMP", "/tmp/seedval")
ENV = dict(os.environ, GOFLAGS="-mod=mod", GOPROXY="off", GOSUMDB="off")
VERIF = os.path.dirname(os.path.dirname(os.path.abspath(__file__)))


def sh(cmd, cwd=None, timeout=1800):
    r = subprocess.run(cmd, shell=True, cwd=cwd, env=ENV, stdout=subprocess.PIPE, stderr=subprocess.STDOUT, text=True, timeout=timeout)
    return r.returncode, r.stdout


def suite(wt):
    """f1's own suite; its timing tests flake under CPU load, so packages that fail are re-run on their own."""
    rc, out = sh("go test -vet=off -count=1 ./...", cwd=wt)
    if rc == 0:
        return True, "pass"
    if "[build failed]" in out or "cannot find" in out:
        return False, out[-800:]
    fails = []
    for pkg in sorted(set(re.findall(r"^FAIL\s+(\S+)", out, re.M))):
        ok = False
        for attempt in range(4):
            rc2, out2 = sh("go test -vet=off -count=1 -parallel 4 %s" % pkg, cwd=wt)
            if rc2 == 0:
                ok = True
                break
        if not ok:
            fails += [l for l in out2.splitlines() if l.startswith("--- FAIL") or l.startswith("FAIL")][:6]
    if fails:
        return False, "\n".join(fails[:10])
    return True, "pass (packages with timing flakes re-run on their own)"


def demo_tests(demo_dir):
    pkgs = set()
    names = set()
    for dp, _, fns in os.walk(demo_dir):
        for fn in fns:
            rel = os.path.relpath(os.path.join(dp, fn), demo_dir)
            if fn.endswith("_test.go"):
                pkgs.add("./" + os.path.dirname(rel))
                for m in re.finditer(r"^func (Test\w+)\(", open(os.path.join(dp, fn)).read(), re.M):
                    names.add(m.group(1))
    return sorted(pkgs), sorted(names)


def run_demo(wt, demo_dir, reps=3):
    pkgs, names = demo_tests(demo_dir)
    if not pkgs:
        return None, "no demo test found"
    results = []
    for _ in range(reps):
        rc, out = sh("go test -vet=off -count=1 -run '^(%s)$' %s" % ("|".join(names), " ".join(pkgs)), cwd=wt, timeout=900)
        results.append(rc)
    return results, out[-1500:]


def main():
    ap = argparse.ArgumentParser()
    ap.add_argument("prop")
    ap.add_argument("x")
    ap.add_argument("--checks", default="")
    ap.add_argument("--budget", type=float, default=0)
    ap.add_argument("--skip-validate", action="store_true")
    ap.add_argument("--src", default="")
    args = ap.parse_args()
    src = args.src or "/tmp/seedwt/%s.out" % args.prop
    patch = os.path.join(src, "%s.patch.diff" % args.x)
    demo = os.path.join(src, "%s.demo" % args.x)
    meta_txt = os.path.join(src, "%s.meta.txt" % args.x)
    name = "%s-%s" % (args.prop, args.x)
    dst = os.path.join(VERIF, "seeded", name)
    reval = args.src == "seeded"  # re-validate what is kept under /verif/seeded/<id>/ (e.g. after rebasing its patch)
    if reval:
        shutil.rmtree(TMPBASE + "/src-%s" % name, ignore_errors=True)
        os.makedirs(TMPBASE + "/src-%s" % name)
        src = TMPBASE + "/src-%s" % name
        shutil.copy(os.path.join(dst, "patch.diff"), os.path.join(src, "%s.patch.diff" % args.x))
        if os.path.isdir(os.path.join(dst, "demo")):
            shutil.copytree(os.path.join(dst, "demo"), os.path.join(src, "%s.demo" % args.x))
        patch = os.path.join(src, "%s.patch.diff" % args.x)
        demo = os.path.join(src, "%s.demo" % args.x)
        meta_txt = os.path.join(src, "none")
    meta = {"id": name, "property": args.prop, "agent_notes": open(meta_txt).read() if os.path.exists(meta_txt) else "", "ran": []}
    prev_meta = {}
    if os.path.exists(os.path.join(dst, "meta.json")):
        prev_meta = json.load(open(os.path.join(dst, "meta.json")))
        if args.skip_validate:  # keep what an earlier, validating round established
            for k in ("ran", "valid", "demo_discriminates", "check_rounds", "first_round_missed", "needs_to_manifest"):
                if k in prev_meta:
                    meta[k] = prev_meta[k]
    if reval and prev_meta:
        meta["agent_notes"] = prev_meta.get("agent_notes", "")
        for k in ("check_rounds", "first_round_missed"):
            if k in prev_meta:
                meta[k] = prev_meta[k]
        if not args.skip_validate:
            meta["rebased"] = "patch rebased onto the later fix: commits in /repo and re-validated"
        elif "rebased" in prev_meta:
            meta["rebased"] = prev_meta["rebased"]
    if not os.path.exists(patch):
        print("no patch", patch)
        return 2
    # area-based waves (W1 …): the properties the change claims to break are named in the first line of its notes
    claimed = []
    if not re.match(r"^C\d+$", args.prop):
        first = (meta["agent_notes"].strip().splitlines() or [""])[0]
        claimed = list(dict.fromkeys(re.findall(r"C\d\d", first)))
        if not claimed:
            claimed = list(dict.fromkeys(re.findall(r"C\d\d", meta["agent_notes"])))[:2]
        meta["property"] = claimed[0] if claimed else "?"
        meta["claimed_properties"] = claimed
    if not args.skip_validate:
        wt = TMPBASE + "/%s" % name
        sh("git -C /repo worktree remove --force %s" % wt)
        shutil.rmtree(wt, ignore_errors=True)
        rc, out = sh("git -C /repo worktree add -q --detach %s HEAD" % wt)
        if rc != 0:
            print(out)
            return 2
        try:
            rc, out = sh("git apply %s" % patch, cwd=wt)
            if rc != 0:
                print("PATCH DOES NOT APPLY:", out)
                meta["valid"] = False
                return 1
            rc, out = sh("go build ./...", cwd=wt)
            meta["ran"].append("go build ./... (patched): rc=%d" % rc)
            if rc != 0:
                print("BUILD FAILS:", out[-2000:])
                return 1
            ok, info = suite(wt)
            meta["ran"].append("go test -vet=off -count=1 ./... (patched, existing suite): %s" % info)
            if not ok:
                print("EXISTING SUITE FAILS WITH PATCH:\n" + info)
                return 1
            if os.path.isdir(demo):
                sh("cp -r %s/. %s/" % (demo, wt))
                res, tail = run_demo(wt, demo)
                meta["ran"].append("demo with patch (3 runs) rc=%s" % res)
                fails_with = res and any(r != 0 for r in res)
                sh("git apply -R %s" % patch, cwd=wt)
                res2, tail2 = run_demo(wt, demo)
                meta["ran"].append("demo without patch (3 runs) rc=%s" % res2)
                passes_without = res2 and all(r == 0 for r in res2)
                print("demo: with patch rc=%s, without rc=%s" % (res, res2))
                if not fails_with or not passes_without:
                    print("DEMO DOES NOT DISCRIMINATE\n", tail[-800:], "\n----\n", tail2[-800:])
                    meta["valid"] = False
                    meta["demo_discriminates"] = False
                    # keep going: the change may still be a legitimate property break; flagged in meta
                else:
                    meta["demo_discriminates"] = True
            meta["valid"] = meta.get("valid", True)
        finally:
            sh("git -C /repo worktree remove --force %s" % wt)
            shutil.rmtree(wt, ignore_errors=True)
    # (3) the checks, against a private worktree with the patch applied (VERIF_REPO), so that /repo stays free
    primary = [args.prop] if re.match(r"^C\d+$", args.prop) else claimed
    checks = primary + [c for c in args.checks.split(",") if c and c not in primary]
    wt = TMPBASE + "/run-%s" % name
    sh("git -C /repo worktree remove --force %s" % wt)
    shutil.rmtree(wt, ignore_errors=True)
    rc, out = sh("git -C /repo worktree add -q --detach %s HEAD" % wt)
    if rc != 0:
        print(out)
        return 2
    outdir = TMPBASE + "/out-%s" % name
    shutil.rmtree(outdir, ignore_errors=True)
    detected = {}
    try:
        rc, out = sh("git apply %s" % patch, cwd=wt)
        if rc != 0:
            print("patch does not apply:", out)
            return 1
        env2 = "VERIF_REPO=%s VERIF_OUT=%s " % (wt, outdir)
        for c in checks:
            t0 = time.time()
            cmd = env2 + "./check %s --tier quick" % c + (" --budget %g" % args.budget if args.budget else "")
            rc, out = sh(cmd, cwd=VERIF, timeout=3600)
            viol = [l for l in out.splitlines() if l.startswith("VIOLATION") or l.startswith("  oracle:") or l.startswith("  process crashed")]
            summary = [l for l in out.splitlines() if l.startswith("property=")]
            detected[c] = {"rc": rc, "wall_s": round(time.time() - t0, 1), "lines": [v.replace(outdir, "<out>") for v in viol[:6]], "summary": summary[:1]}
            print("check %s rc=%d %s" % (c, rc, " | ".join(v[:160] for v in viol[:3])))
            if rc not in (0, 1):
                print(out[-1500:])
    finally:
        sh("git -C /repo worktree remove --force %s" % wt)
        shutil.rmtree(wt, ignore_errors=True)
        shutil.rmtree(outdir, ignore_errors=True)
    meta["checks"] = detected
    meta["detected_by"] = [c for c, d in detected.items() if d["rc"] == 1]
    rounds = list(prev_meta.get("check_rounds", []))
    rounds.append({"at": time.strftime("%H:%M:%S"), "quick_check_exit_codes": {c: d["rc"] for c, d in detected.items()}})
    meta["check_rounds"] = rounds
    meta["first_round_missed"] = all(rc != 1 for rc in rounds[0]["quick_check_exit_codes"].values())
    meta["needs_to_manifest"] = meta.get("agent_notes", "")
    os.makedirs(dst, exist_ok=True)
    shutil.copy(patch, os.path.join(dst, "patch.diff"))
    if os.path.isdir(demo):
        shutil.rmtree(os.path.join(dst, "demo"), ignore_errors=True)
        shutil.copytree(demo, os.path.join(dst, "demo"))
    json.dump(meta, open(os.path.join(dst, "meta.json"), "w"), indent=1)
    print("kept as", dst, "detected_by", meta["detected_by"])
    return 0


if __name__ == "__main__":
    sys.exit(main())
