module verifinstrument

go 1.22
