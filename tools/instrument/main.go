// instrument copies a tree of f1 into a scratch directory and rewrites internal/** and pkg/** for
// deterministic simulation (see /verif/DESIGN.md §2.1). Standard library only.
package main

import (
	"bytes"
	"flag"
	"fmt"
	"go/ast"
	"go/parser"
	"go/printer"
	"go/token"
	"io/fs"
	"os"
	"path/filepath"
	"strconv"
	"strings"
)

const rtAlias = "__simrt"

type fileCtx struct {
	fset        *token.FileSet
	pkgRel      string
	fn          string
	ord         int
	labelN      int
	usedRT      bool
	usedSync    bool
	nSelect     int
	nYield      int
	constraint  string
	unrewritten []string
}

func main() {
	repo := flag.String("repo", "/repo", "source tree")
	out := flag.String("out", "", "destination (scratch) directory")
	simDir := flag.String("sim", "", "directory with simrt/simsync/simrand, copied to internal/verifsim")
	harnessDir := flag.String("harness", "", "harness package directory, copied (instrumented) to internal/verifharness")
	withTests := flag.Bool("with-tests", false, "also copy _test.go files and testdata (uninstrumented)")
	mod := flag.String("mod", "github.com/form3tech-oss/f1/v2", "module path")
	flag.Parse()
	if *out == "" {
		fmt.Fprintln(os.Stderr, "instrument: -out required")
		os.Exit(2)
	}
	total := fileCtx{}
	var unrewritten []string
	copyTree := func(src, dstRel string, instrumentAll bool, isRepo bool) error {
		return filepath.WalkDir(src, func(p string, d fs.DirEntry, err error) error {
			if err != nil {
				return err
			}
			rel, _ := filepath.Rel(src, p)
			if d.IsDir() {
				n := d.Name()
				if n == ".git" || (isRepo && (rel == "scripts" || rel == "benchcmd" || rel == ".github")) {
					return filepath.SkipDir
				}
				return os.MkdirAll(filepath.Join(*out, dstRel, rel), 0o755)
			}
			isGo := strings.HasSuffix(p, ".go")
			isTest := strings.HasSuffix(p, "_test.go")
			if isRepo {
				if isTest && !*withTests {
					return nil
				}
				if !isGo && !*withTests && rel != "go.mod" && rel != "go.sum" {
					return nil
				}
			}
			data, err := os.ReadFile(p)
			if err != nil {
				return err
			}
			outData := data
			dstPath := filepath.Join(dstRel, rel)
			instrument := isGo && !isTest && !strings.HasSuffix(p, "_raw.go")
			if isRepo {
				instrument = instrument && (strings.HasPrefix(rel, "internal/") || strings.HasPrefix(rel, "pkg/"))
			} else {
				instrument = instrument && instrumentAll
			}
			if instrument {
				c := &fileCtx{pkgRel: filepath.Dir(dstPath)}
				outData, err = rewrite(c, p, data, *mod)
				if err != nil {
					return fmt.Errorf("%s: %w", rel, err)
				}
				total.nSelect += c.nSelect
				total.nYield += c.nYield
				unrewritten = append(unrewritten, c.unrewritten...)
			}
			return os.WriteFile(filepath.Join(*out, dstPath), outData, 0o644)
		})
	}
	must := func(err error) {
		if err != nil {
			fmt.Fprintln(os.Stderr, "instrument:", err)
			os.Exit(2)
		}
	}
	must(os.MkdirAll(*out, 0o755))
	must(copyTree(*repo, "", false, true))
	if *simDir != "" {
		must(copyTree(*simDir, "internal/verifsim", false, false))
	}
	if *harnessDir != "" {
		must(copyTree(*harnessDir, "internal/verifharness", true, false))
	}
	fmt.Printf("{\"yields\":%d,\"selects\":%d,\"unrewritten\":%d}\n", total.nYield, total.nSelect, len(unrewritten))
	for _, u := range unrewritten {
		fmt.Println("UNREWRITTEN", u)
	}
}

func rewrite(c *fileCtx, path string, data []byte, mod string) ([]byte, error) {
	c.fset = token.NewFileSet()
	f, err := parser.ParseFile(c.fset, path, data, parser.ParseComments)
	if err != nil {
		return nil, err
	}
	isXtime := strings.HasSuffix(c.pkgRel, "internal/xtime")
	// keep only build-constraint comments
	var keep []*ast.CommentGroup
	for _, cg := range f.Comments {
		isConstraint := false
		for _, cm := range cg.List { // (CommentGroup.Text drops directive comments)
			if strings.HasPrefix(cm.Text, "//go:build") {
				isConstraint = true
			}
		}
		if cg.End() < f.Package && isConstraint {
			// re-emitted textually in front of the printed file (kept comments upset the printer's line layout
			// once specs without positions are appended to the import block)
			for _, cm := range cg.List {
				if strings.HasPrefix(cm.Text, "//go:build") {
					c.constraint = cm.Text
				}
			}
		}
	}
	_ = keep
	f.Comments = nil
	f.Doc = nil

	// type and import rewrites
	ast.Inspect(f, func(n ast.Node) bool {
		if se, ok := n.(*ast.SelectorExpr); ok {
			if id, ok := se.X.(*ast.Ident); ok && id.Name == "sync" && (se.Sel.Name == "Mutex" || se.Sel.Name == "RWMutex") {
				id.Name = "__simsync"
				c.usedSync = true
			}
		}
		return true
	})
	var decls []ast.Decl
	for _, d := range f.Decls {
		fd, ok := d.(*ast.FuncDecl)
		if !ok {
			decls = append(decls, d)
			continue
		}
		fd.Doc = nil
		if fd.Body == nil {
			if isXtime {
				continue // drop linknamed declaration
			}
			decls = append(decls, d)
			continue
		}
		c.fn = fd.Name.Name
		if fd.Recv != nil && len(fd.Recv.List) == 1 {
			c.fn = recvName(fd.Recv.List[0].Type) + "." + fd.Name.Name
		}
		c.ord = 0
		if isXtime && fd.Name.Name == "NanoTime" {
			fd.Body = &ast.BlockStmt{List: []ast.Stmt{&ast.ReturnStmt{Results: []ast.Expr{
				&ast.CallExpr{Fun: &ast.SelectorExpr{X: ast.NewIdent(rtAlias), Sel: ast.NewIdent("Nanotime")}}}}}}
			c.usedRT = true
		} else {
			c.block(fd.Body, false)
		}
		decls = append(decls, d)
	}
	f.Decls = decls
	// package-level function literals (var x = func(){...})
	for _, d := range f.Decls {
		if gd, ok := d.(*ast.GenDecl); ok {
			gd.Doc = nil
			c.fn = "pkgvar"
			c.exprFuncLits(gd)
		}
	}

	// imports
	for _, d := range f.Decls {
		gd, ok := d.(*ast.GenDecl)
		if !ok || gd.Tok != token.IMPORT {
			continue
		}
		var specs []ast.Spec
		for _, s := range gd.Specs {
			is := s.(*ast.ImportSpec)
			is.Doc, is.Comment = nil, nil
			p, _ := strconv.Unquote(is.Path.Value)
			switch p {
			case "math/rand":
				is.Path.Value = strconv.Quote(mod + "/internal/verifsim/simrand")
				if is.Name == nil {
					is.Name = ast.NewIdent("rand")
				}
			case "os/signal":
				if !strings.Contains(c.pkgRel, "verifharness") && !strings.Contains(c.pkgRel, "verifsim") {
					is.Path.Value = strconv.Quote(mod + "/internal/verifsim/simsignal")
					if is.Name == nil {
						is.Name = ast.NewIdent("signal")
					}
				}
			case "sync":
				if !usesIdent(f, "sync") {
					continue
				}
			}
			specs = append(specs, s)
		}
		if c.usedRT {
			specs = append(specs, &ast.ImportSpec{Name: ast.NewIdent(rtAlias), Path: &ast.BasicLit{Kind: token.STRING, Value: strconv.Quote(mod + "/internal/verifsim/simrt")}})
			c.usedRT = false
		}
		if c.usedSync {
			specs = append(specs, &ast.ImportSpec{Name: ast.NewIdent("__simsync"), Path: &ast.BasicLit{Kind: token.STRING, Value: strconv.Quote(mod + "/internal/verifsim/simsync")}})
			c.usedSync = false
		}
		gd.Specs = specs
		gd.Lparen = 1 // force parenthesised form
		break
	}
	if c.usedRT || c.usedSync {
		gd := &ast.GenDecl{Tok: token.IMPORT, Lparen: 1}
		if c.usedRT {
			gd.Specs = append(gd.Specs, &ast.ImportSpec{Name: ast.NewIdent(rtAlias), Path: &ast.BasicLit{Kind: token.STRING, Value: strconv.Quote(mod + "/internal/verifsim/simrt")}})
		}
		if c.usedSync {
			gd.Specs = append(gd.Specs, &ast.ImportSpec{Name: ast.NewIdent("__simsync"), Path: &ast.BasicLit{Kind: token.STRING, Value: strconv.Quote(mod + "/internal/verifsim/simsync")}})
		}
		f.Decls = append([]ast.Decl{gd}, f.Decls...)
	}
	var buf bytes.Buffer
	if err := (&printer.Config{Mode: printer.UseSpaces | printer.TabIndent, Tabwidth: 8}).Fprint(&buf, token.NewFileSet(), f); err != nil {
		return nil, err
	}
	if c.constraint != "" {
		out := append([]byte(c.constraint+"\n\n"), buf.Bytes()...)
		c.constraint = ""
		return out, nil
	}
	return buf.Bytes(), nil
}

func recvName(e ast.Expr) string {
	switch t := e.(type) {
	case *ast.StarExpr:
		return recvName(t.X)
	case *ast.Ident:
		return t.Name
	case *ast.IndexExpr:
		return recvName(t.X)
	case *ast.IndexListExpr:
		return recvName(t.X)
	}
	return "?"
}

func usesIdent(f *ast.File, name string) bool {
	used := false
	ast.Inspect(f, func(n ast.Node) bool {
		if se, ok := n.(*ast.SelectorExpr); ok {
			if id, ok := se.X.(*ast.Ident); ok && id.Name == name {
				used = true
			}
		}
		return !used
	})
	return used
}

func (c *fileCtx) yield() ast.Stmt { return c.yieldNamed("Yield") }

// yieldNamed inserts a scheduling point; "YieldSpawn" (before a go statement) always goes through the
// scheduler, so that at most one new goroutine appears per scheduling step and task naming is canonical.
func (c *fileCtx) yieldNamed(fn string) ast.Stmt {
	c.usedRT = true
	c.nYield++
	site := fmt.Sprintf("%s.%s#%d", c.pkgRel, c.fn, c.ord)
	c.ord++
	return &ast.ExprStmt{X: &ast.CallExpr{
		Fun:  &ast.SelectorExpr{X: ast.NewIdent(rtAlias), Sel: ast.NewIdent(fn)},
		Args: []ast.Expr{&ast.BasicLit{Kind: token.STRING, Value: strconv.Quote(site)}},
	}}
}

// interesting reports whether the statement itself (not nested blocks) contains a call, channel op, go/defer.
func interesting(s ast.Stmt) bool {
	switch s.(type) {
	case *ast.GoStmt, *ast.DeferStmt, *ast.SendStmt, *ast.SelectStmt, *ast.RangeStmt:
		return true
	}
	found := false
	ast.Inspect(s, func(n ast.Node) bool {
		if found {
			return false
		}
		switch x := n.(type) {
		case *ast.BlockStmt, *ast.FuncLit:
			// nested bodies are handled on their own; but conditions/inits are part of this statement
			_ = x
			return false
		case *ast.CallExpr:
			found = true
		case *ast.UnaryExpr:
			if x.Op == token.ARROW {
				found = true
			}
		}
		return !found
	})
	return found
}

func terminating(s ast.Stmt) bool {
	switch x := s.(type) {
	case *ast.ReturnStmt, *ast.BranchStmt:
		return true
	case *ast.ExprStmt:
		if ce, ok := x.X.(*ast.CallExpr); ok {
			if id, ok := ce.Fun.(*ast.Ident); ok && id.Name == "panic" {
				return true
			}
		}
	}
	return false
}

func (c *fileCtx) stmts(list []ast.Stmt, clauseTop bool) []ast.Stmt {
	var out []ast.Stmt
	if clauseTop {
		out = append(out, c.yield())
	}
	for i, s := range list {
		if _, isGo := unlabel(s).(*ast.GoStmt); isGo {
			out = append(out, c.yieldNamed("YieldSpawn"))
		} else if !(clauseTop && i == 0) && interesting(unlabel(s)) {
			out = append(out, c.yield())
		}
		out = append(out, c.stmt(s)...)
	}
	return out
}

func unlabel(s ast.Stmt) ast.Stmt {
	for {
		ls, ok := s.(*ast.LabeledStmt)
		if !ok {
			return s
		}
		s = ls.Stmt
	}
}

func (c *fileCtx) block(b *ast.BlockStmt, loopBody bool) {
	if b == nil {
		return
	}
	b.List = c.stmts(b.List, false)
	if loopBody && (len(b.List) == 0 || !terminating(b.List[len(b.List)-1])) {
		b.List = append(b.List, c.yield())
	}
}

// stmt rewrites nested structure of s; may return replacement statements.
func (c *fileCtx) stmt(s ast.Stmt) []ast.Stmt {
	c.exprFuncLits(shallow{s})
	switch x := s.(type) {
	case *ast.BlockStmt:
		c.block(x, false)
	case *ast.LabeledStmt:
		r := c.stmt(x.Stmt)
		if len(r) == 1 {
			x.Stmt = r[0]
		} else {
			x.Stmt = &ast.BlockStmt{List: r}
		}
	case *ast.IfStmt:
		c.block(x.Body, false)
		if x.Else != nil {
			r := c.stmt(x.Else)
			if len(r) == 1 {
				x.Else = r[0]
			} else {
				x.Else = &ast.BlockStmt{List: r}
			}
		}
	case *ast.ForStmt:
		c.block(x.Body, true)
	case *ast.RangeStmt:
		c.block(x.Body, true)
	case *ast.SwitchStmt:
		c.clauses(x.Body)
	case *ast.TypeSwitchStmt:
		c.clauses(x.Body)
	case *ast.SelectStmt:
		return c.selectStmt(x)
	case *ast.ExprStmt:
		if pre := c.hoistLoad(x); pre != nil {
			return pre
		}
	}
	return []ast.Stmt{s}
}

// hoistLoad splits `a.Store(b.Load() + 1)` / `a.Add(b.Load())` - one method call whose arguments contain exactly one
// further call, a niladic Load() on a plain selector chain - into `tmp := b.Load(); <yield>; a.Store(tmp + 1)`. The two
// atomic operations of such a statement are separate steps of the machine; evaluation order is unchanged (the
// receiver chain of the outer call has no side effects and the Load is the only other call).
func (c *fileCtx) hoistLoad(es *ast.ExprStmt) []ast.Stmt {
	outer, ok := es.X.(*ast.CallExpr)
	if !ok {
		return nil
	}
	sel, ok := outer.Fun.(*ast.SelectorExpr)
	if !ok || !pureChain(sel.X) {
		return nil
	}
	switch sel.Sel.Name {
	case "Store", "Add", "Swap", "CompareAndSwap":
	default:
		return nil
	}
	var calls []*ast.CallExpr
	bad := false
	for _, a := range outer.Args {
		ast.Inspect(a, func(n ast.Node) bool {
			switch v := n.(type) {
			case *ast.CallExpr:
				calls = append(calls, v)
			case *ast.FuncLit, *ast.UnaryExpr:
				if u, isU := v.(*ast.UnaryExpr); !isU || u.Op == token.ARROW {
					bad = true
				}
			}
			return true
		})
	}
	if bad || len(calls) != 1 {
		return nil
	}
	inner := calls[0]
	isel, ok := inner.Fun.(*ast.SelectorExpr)
	if !ok || isel.Sel.Name != "Load" || len(inner.Args) != 0 || !pureChain(isel.X) {
		return nil
	}
	tmp := ast.NewIdent(fmt.Sprintf("__ld%d", c.nYield))
	def := &ast.AssignStmt{Lhs: []ast.Expr{tmp}, Tok: token.DEFINE, Rhs: []ast.Expr{&ast.CallExpr{Fun: inner.Fun}}}
	// replace the inner call by the temporary
	replaced := false
	for i, a := range outer.Args {
		outer.Args[i] = replaceExpr(a, inner, tmp, &replaced)
	}
	if !replaced {
		return nil
	}
	return []ast.Stmt{def, c.yield(), es}
}

func pureChain(e ast.Expr) bool {
	switch v := e.(type) {
	case *ast.Ident:
		return true
	case *ast.SelectorExpr:
		return pureChain(v.X)
	case *ast.ParenExpr:
		return pureChain(v.X)
	case *ast.StarExpr:
		return pureChain(v.X)
	}
	return false
}

// replaceExpr returns e with the node old replaced by repl (binary, paren, unary and call-argument positions).
func replaceExpr(e ast.Expr, old *ast.CallExpr, repl ast.Expr, done *bool) ast.Expr {
	if ce, ok := e.(*ast.CallExpr); ok && ce == old {
		*done = true
		return repl
	}
	switch v := e.(type) {
	case *ast.BinaryExpr:
		v.X = replaceExpr(v.X, old, repl, done)
		v.Y = replaceExpr(v.Y, old, repl, done)
	case *ast.ParenExpr:
		v.X = replaceExpr(v.X, old, repl, done)
	case *ast.UnaryExpr:
		v.X = replaceExpr(v.X, old, repl, done)
	case *ast.CallExpr: // conversions such as int64(x.Load())
		for i, a := range v.Args {
			v.Args[i] = replaceExpr(a, old, repl, done)
		}
	}
	return e
}

func (c *fileCtx) clauses(b *ast.BlockStmt) {
	for _, cl := range b.List {
		switch cc := cl.(type) {
		case *ast.CaseClause:
			cc.Body = c.stmts(cc.Body, true)
		case *ast.CommClause:
			cc.Body = c.stmts(cc.Body, true)
		}
	}
}

// shallow lets exprFuncLits visit a statement without descending into nested statement blocks twice.
type shallow struct{ s ast.Stmt }

// exprFuncLits instruments function literals that appear in expressions of node n.
func (c *fileCtx) exprFuncLits(n any) {
	var root ast.Node
	stopAtBlocks := false
	switch v := n.(type) {
	case shallow:
		root, stopAtBlocks = v.s, true
	case ast.Node:
		root = v
	}
	first := true
	ast.Inspect(root, func(m ast.Node) bool {
		if m == nil {
			return false
		}
		if stopAtBlocks && !first {
			if _, ok := m.(*ast.BlockStmt); ok {
				return false
			}
			if _, ok := m.(*ast.CaseClause); ok {
				return false
			}
			if _, ok := m.(*ast.CommClause); ok {
				return false
			}
		}
		first = false
		if fl, ok := m.(*ast.FuncLit); ok {
			saveFn, saveOrd := c.fn, c.ord
			c.fn, c.ord = saveFn+".func", 0
			c.block(fl.Body, false)
			c.fn, c.ord = saveFn, saveOrd+1000
			return false
		}
		return true
	})
}

func (c *fileCtx) selectStmt(sel *ast.SelectStmt) []ast.Stmt {
	c.nSelect++
	var comm []*ast.CommClause
	var def *ast.CommClause
	for _, cl := range sel.Body.List {
		cc := cl.(*ast.CommClause)
		cc.Body = c.stmts(cc.Body, true)
		if cc.Comm == nil {
			def = cc
		} else {
			comm = append(comm, cc)
		}
	}
	n := len(comm)
	if n < 2 {
		return []ast.Stmt{sel}
	}
	c.labelN++
	c.usedRT = true
	id := c.labelN
	nm := func(p string, i int) *ast.Ident { return ast.NewIdent(fmt.Sprintf("__sim%s_%d_%d", p, id, i)) }
	label := fmt.Sprintf("__simpoll_%d", id)
	kName := fmt.Sprintf("__simk_%d", id)
	fired := fmt.Sprintf("__simfired_%d", id)
	site := fmt.Sprintf("%s.%s.select%d", c.pkgRel, c.fn, id)
	rt := func(fn string, args ...ast.Expr) ast.Expr {
		return &ast.CallExpr{Fun: &ast.SelectorExpr{X: ast.NewIdent(rtAlias), Sel: ast.NewIdent(fn)}, Args: args}
	}
	define := func(lhs ast.Expr, rhs ast.Expr) ast.Stmt {
		return &ast.AssignStmt{Lhs: []ast.Expr{lhs}, Tok: token.DEFINE, Rhs: []ast.Expr{rhs}}
	}
	assign := func(lhs ast.Expr, rhs ast.Expr) ast.Stmt {
		return &ast.AssignStmt{Lhs: []ast.Expr{lhs}, Tok: token.ASSIGN, Rhs: []ast.Expr{rhs}}
	}
	intLit := func(i int) ast.Expr { return &ast.BasicLit{Kind: token.INT, Value: strconv.Itoa(i)} }

	var pre []ast.Stmt            // hoisted evaluations, in source order
	comms := make([]ast.Stmt, n)  // the communication of each case, over hoisted operands
	post := make([][]ast.Stmt, n) // bindings to perform before the body
	for i, cc := range comm {
		switch st := cc.Comm.(type) {
		case *ast.SendStmt:
			pre = append(pre, define(nm("c", i), st.Chan), define(nm("x", i), st.Value))
			comms[i] = &ast.SendStmt{Chan: nm("c", i), Value: nm("x", i)}
		case *ast.ExprStmt: // <-ch
			ue := st.X.(*ast.UnaryExpr)
			pre = append(pre, define(nm("c", i), ue.X))
			comms[i] = &ast.ExprStmt{X: &ast.UnaryExpr{Op: token.ARROW, X: nm("c", i)}}
		case *ast.AssignStmt: // v := <-ch ; v, ok := <-ch ; x = <-ch
			ue := st.Rhs[0].(*ast.UnaryExpr)
			pre = append(pre, define(nm("c", i), ue.X), define(nm("v", i), rt("ElemZero", nm("c", i))))
			lhs := []ast.Expr{nm("v", i)}
			if len(st.Lhs) == 2 {
				pre = append(pre, define(nm("ok", i), ast.NewIdent("false")))
				lhs = append(lhs, nm("ok", i))
			}
			comms[i] = &ast.AssignStmt{Lhs: lhs, Tok: token.ASSIGN, Rhs: []ast.Expr{&ast.UnaryExpr{Op: token.ARROW, X: nm("c", i)}}}
			rhs := []ast.Expr{nm("v", i)}
			if len(st.Lhs) == 2 {
				rhs = append(rhs, nm("ok", i))
			}
			post[i] = []ast.Stmt{&ast.AssignStmt{Lhs: st.Lhs, Tok: st.Tok, Rhs: rhs}}
			if st.Tok == token.DEFINE { // keep "declared and not used" behaviour identical to the source: do nothing
			}
		default:
			c.unrewritten = append(c.unrewritten, fmt.Sprintf("%s.%s", c.pkgRel, c.fn))
			return []ast.Stmt{sel} // unknown shape: leave as written
		}
	}
	pre = append(pre, define(ast.NewIdent(kName), intLit(0)), define(ast.NewIdent(fired), intLit(-1)))
	setFired := func(i int) []ast.Stmt { return []ast.Stmt{assign(ast.NewIdent(fired), intLit(i))} }
	retry := func() []ast.Stmt {
		return []ast.Stmt{&ast.IncDecStmt{X: ast.NewIdent(kName), Tok: token.INC}, &ast.BranchStmt{Tok: token.GOTO, Label: ast.NewIdent(label)}}
	}
	var cases []ast.Stmt
	for i := range comm {
		one := &ast.SelectStmt{Body: &ast.BlockStmt{List: []ast.Stmt{
			&ast.CommClause{Comm: comms[i], Body: setFired(i)},
			&ast.CommClause{Comm: nil, Body: retry()},
		}}}
		cases = append(cases, &ast.CaseClause{List: []ast.Expr{intLit(i)}, Body: []ast.Stmt{one}})
	}
	var fallback []ast.Stmt
	if def != nil {
		fallback = setFired(-2)
	} else {
		var cls []ast.Stmt
		for i := range comm {
			cls = append(cls, &ast.CommClause{Comm: comms[i], Body: setFired(i)})
		}
		fallback = []ast.Stmt{&ast.SelectStmt{Body: &ast.BlockStmt{List: cls}}}
	}
	cases = append(cases, &ast.CaseClause{List: nil, Body: fallback})
	poll := &ast.LabeledStmt{Label: ast.NewIdent(label), Stmt: &ast.SwitchStmt{
		Tag:  rt("SelectNext", &ast.BasicLit{Kind: token.STRING, Value: strconv.Quote(site)}, intLit(n), ast.NewIdent(kName)),
		Body: &ast.BlockStmt{List: cases}}}
	var bodies []ast.Stmt
	for i, cc := range comm {
		bodies = append(bodies, &ast.CaseClause{List: []ast.Expr{intLit(i)}, Body: append(post[i], cc.Body...)})
	}
	if def != nil {
		bodies = append(bodies, &ast.CaseClause{List: []ast.Expr{intLit(-2)}, Body: def.Body})
	}
	// a select whose cases all end in a terminating statement is itself terminating (no "missing return"
	// after it); a switch is only when it has a default clause, so the dispatch gets an unreachable one
	bodies = append(bodies, &ast.CaseClause{List: nil, Body: []ast.Stmt{&ast.ExprStmt{X: &ast.CallExpr{
		Fun: ast.NewIdent("panic"), Args: []ast.Expr{&ast.BasicLit{Kind: token.STRING, Value: strconv.Quote("verif: unreachable select dispatch")}}}}}})
	dispatch := &ast.SwitchStmt{Tag: ast.NewIdent(fired), Body: &ast.BlockStmt{List: bodies}}
	out := append(pre, poll, dispatch)
	return []ast.Stmt{&ast.BlockStmt{List: out}}
}

func sanitize(s string) string {
	return strings.Map(func(r rune) rune {
		if r == '.' || r == '?' {
			return '_'
		}
		return r
	}, s)
}
