#!/usr/bin/env python3
"""Regenerates /verif/MANIFEST.json and /verif/propinfo.json from the table below (kept valid at all times)."""
import json
import os

V = os.path.dirname(os.path.dirname(os.path.abspath(__file__)))
props = [json.loads(l) for l in open(os.path.join(V, "properties.jsonl"))]

REAL = ("real (instrumented): internal/run, internal/workers, internal/progress, internal/raterun, internal/trigger/**, "
        "internal/metrics, internal/run/views, internal/ui, internal/log, pkg/f1/testing, pkg/f1 (CombineScenarios); "
        "real (uninstrumented): prometheus client, cobra/pflag, slog, yaml, context, Go runtime timers under synctest")
STUB = ("stubbed: xtime.NanoTime -> bubble clock; math/rand -> choice stream; sync.Mutex/RWMutex -> scheduler-aware model; "
        "os/signal -> simulator-delivered SIGINT (public entry point; context cancellation for the other drivers); "
        "scenario code, output writers (recording), log file (/dev/null), push gateway (disabled)")

# id -> (harness summary, technique, level text, rule, quick budget, thorough budget)
CHECKS = {
    "C01": ("H3 progress.Stats under concurrent Record/Snapshot/Total at statement granularity + H1 whole runs",
            "deterministic simulation: seeded schedule search over the real counters, count-conservation oracle vs scenario ground truth",
            "one run = recorders x snapshots (H3) or a whole simulated load test (H1); non-trivial: a snapshot overlapped a Record (H3) / >=2 iterations completed (H1)"),
    "C02": ("H2 trigger pool driven tick by tick against a reference pool model + H1 constant-rate runs with exact tick accounting",
            "deterministic simulation: seeded schedules + stop placement, conservation oracle and refinement against an ideal c-server pool model",
            "one run = a tick script on the real TriggerPool (H2) or a whole constant-rate run (H1); non-trivial: conservation evaluated with >=1 tick superseded or stop with pending work / exact tick accounting evaluated"),
    "C03": ("H1 whole runs with limits around the concurrency, all modes; H2 pool with limit",
            "deterministic simulation: seeded schedules of workers competing for the last ids, ceiling/uniqueness/gaplessness oracle on scenario ground truth",
            "non-trivial: >=2 invocations observed"),
    "C04": ("H1 whole runs with in-flight tracking and a rendezvous inside bodies",
            "deterministic simulation: seeded schedules, in-flight high-water and handle-aliasing invariant, rendezvous liveness bound in simulated time",
            "non-trivial: >=2 invocations and (high-water >=2 or rendezvous reached)"),
    "C05": ("H1 whole runs (run.NewRun, the cobra command, the public f1 entry point), every ending (duration, trigger end, limit, cancel at any instant / step / point of f1's own protocol, setup failure), blocking bodies, slow output, stalls; H6 config-file runs",
            "deterministic simulation with fault injection (cancel incl. site-relative placement, stall, slow output): bounded liveness in simulated time, completion timeout only with an iteration in flight, quiescence/leak oracle after return",
            "non-trivial: Do was called and returned (every run exercises an ending)"),
    "C06": ("H1 whole runs with generated scenario programs registering/failing/panicking in setup, bodies and cleanups",
            "deterministic simulation: generated scenario programs under seeded schedules and endings, lifecycle-order oracle over the event log",
            "non-trivial: at least one registered cleanup list was checked or setup failed"),
    "C07": ("H1 whole runs with per-iteration failure/panic behaviours",
            "deterministic simulation: injected scenario faults (every failure API, panics, runtime errors) under seeded schedules, classification oracle vs planned outcomes",
            "non-trivial: at least one failing iteration completed"),
    "C08": ("H1 whole runs through run.NewRun and through the cobra command, outcome mixes at tolerance boundaries, zero-iteration runs",
            "deterministic simulation: verdict of real simulated runs (both drivers) vs exact integer reference predicate",
            "non-trivial: verdict compared"),
    "C09": ("H5 real ticking loop with wrapped rate function + H1 constant-rate runs with exact tick accounting",
            "deterministic simulation: exact simulated tick times, stall faults on the ticking goroutine, cadence bound 1+floor(e/interval) and request conservation",
            "non-trivial: >=2 rate evaluations logged / exact tick accounting evaluated"),
    "C16": ("H1 whole runs with metrics on a private registry, static-label maps, 1-3 consecutive runs",
            "deterministic simulation: registry gathered after each simulated run vs result and ground truth",
            "non-trivial: at least one exported series checked"),
    "C17": ("H3 sequential Record/Snapshot/Total scripts vs list model + H1 runs with distinct body/cleanup/queueing sleeps",
            "deterministic simulation: exact simulated clock makes measured durations comparable to the body's own clock; reference-model aggregation",
            "non-trivial: >=2 checked operations (H3) / durations compared (H1)"),
    "C19": ("H1 whole runs in structured and interactive output modes, progress lines bounded by ground truth at their log position",
            "deterministic simulation: rendered output of real simulated runs (incl. zero iterations / zero elapsed time, slow terminal) vs result and ground truth; printed chunks whole, unchanged while written, exactly once",
            "non-trivial: final summary compared"),
    "C20": ("H1 whole runs over f1.CombineScenarios of 1-6 generated components",
            "deterministic simulation: generated component behaviours under seeded schedules, order/handle oracle over the event log",
            "non-trivial: at least one combined iteration checked"),
    "C18": ("H4 raterun.Runner with controller scripts (Start/Restart/Stop/cancel) and slow functions",
            "deterministic simulation: seeded placement of Restart/Stop/cancel relative to ticks, schedule reference model and quiescence oracle",
            "non-trivial: at least one invocation and a Stop/cancel evaluated"),
    "C10": ("H5 staged/ramp rate functions driven by the real ticking loop on the simulated clock with stalls",
            "deterministic simulation supplies exact, irregular (stalled) query times to the stateful calculators; rational interpolation reference",
            "non-trivial: >=3 queries evaluated inside the profile"),
    "C11": ("H5 gaussian calculator over whole simulated windows at arbitrary phase",
            "deterministic simulation of whole repeat windows (hours in milliseconds), per-window volume vs independent erf-based reference",
            "non-trivial: at least one complete window evaluated"),
    "C12": ("H5 distribution wrappers with simulator-driven random source (incl. out-of-range draws)",
            "deterministic simulation: choice-stream random source with boundary draws, per-cycle conservation oracle",
            "non-trivial: >=1 complete cycle with a positive underlying rate"),
    "C13": ("H5 jitter wrapper with simulated math/rand including extreme draws",
            "deterministic simulation: simulated randomness with boundary draws, carry-bound oracle",
            "non-trivial: >=10 ticks with jitter > 0"),
    "C14": ("H6 generated rate/stage strings, flag vectors and YAML (incl. torn/corrupted files) -> constructed triggers run on the simulated clock",
            "deterministic simulation: accepted inputs are executed under the simulator (disk-corruption faults on the config file); reject-or-runnable oracle, rate function of every accepted trigger probed after its run, behavioural meaning of rate strings",
            "non-trivial: input accepted and run, or rejected with an error"),
    "C15": ("H6 generated config files (twin stages, stray fields, overload documents) run through run.NewRun and through `f1 run file`; file-mode runs crashed at arbitrary instants and restarted from the same file at the later simulated now",
            "deterministic simulation with crash-restart fault: plan oracle (kept stages, duration, limits), behaviour under the limits section, run-time stage order / environment / twin-stage oracle",
            "non-trivial: >=2 stages, plan and run-time order evaluated"),
}

BUDGET = {"quick": 40, "thorough": 480}

built = set(os.environ.get("VERIF_BUILT", "").split(",")) - {""}
if not built:
    built = set(json.load(open(os.path.join(V, "built.json"))))

checks, na, propinfo = [], [], {}
for p in props:
    pid = p["id"]
    if pid in built and pid in CHECKS:
        h, tech, rule = CHECKS[pid]
        checks.append({
            "property_id": pid,
            "quick_cmd": "./check %s --tier quick" % pid,
            "thorough_cmd": "./check %s --tier thorough" % pid,
            "evidence_file": "/verif/evidence/%s.json" % pid,
            "replay_cmd_template": "./check %s --replay {path}" % pid,
            "engine": "f1-dst",
            "level_claimed": {
                "category": "exploration",
                "text": "Seeded search over schedules, timings and injected faults of the real f1 code inside a deterministic simulator (%s). "
                        "A clean batch is evidence, not proof; every violation comes with a minimised replay file that reproduces it exactly." % h,
                "design_ref": "DESIGN.md §5 (%s)" % pid,
            },
            "level_note": "Trusted base: the go/ast instrumenter (yield points, select/lock/rand/clock rewrites) preserves behaviour "
                          "(f1's own suite passes on the instrumented tree with the simulator inactive); Go 1.26.8 testing/synctest; "
                          "scheduling granularity is the statement; oracles are written from the property statement.",
            "technique": tech,
        })
        propinfo[pid] = {"rule": "one evaluation = one simulated run (seed -> configuration + choice vector). " + rule +
                                 "; distinct = distinct event-log hash among non-trivial runs",
                         "components": {"real": REAL, "stub": STUB}, "harness": h}
    else:
        na.append({"property_id": pid, "reason": "check not built yet (in progress; planned in DESIGN.md §5)"})

m = {
    "version": 1,
    "setup_cmd": "./check build",
    "hooks": {
        "guard": "verif",
        "enable": "checks instrument a scratch copy of /repo's working tree (tools/instrument) and build it with "
                  "`GOTOOLCHAIN=local go1.26.8 test -c -tags verif`; /repo itself is never built with the tag and carries no hook",
        "baseline_off_cmd": "cd /repo && GOFLAGS=-mod=mod GOPROXY=off GOSUMDB=off go test -vet=off -count=1 -timeout 25m ./...",
        "source_commits": [],
        "add_only": True,
    },
    "engines": [{
        "name": "f1-dst", "path": "/verif/check", "serves_properties": sorted(c["property_id"] for c in checks),
        "kind_free_text": "deterministic simulation with fault injection: go/ast instrumenter + testing/synctest bubble + token-passing "
                          "seeded scheduler + simulated locks/select/rand/clock + fault injection + ddmin replay minimiser",
    }],
    "checks": checks,
    "notes": "See DESIGN.md. known_findings.json lists genuine defects (fixed: entries suppress nothing).",
}
if na:
    m["not_applicable"] = na
json.dump(m, open(os.path.join(V, "MANIFEST.json"), "w"), indent=1)
json.dump(propinfo, open(os.path.join(V, "propinfo.json"), "w"), indent=1)
print("claimed:", sorted(c["property_id"] for c in checks), "not claimed:", [n["property_id"] for n in na])
